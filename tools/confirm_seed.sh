#!/bin/bash
# Confirm a seeded change in its scratch worktree: applies cleanly, compiles, the unedited test suite
# passes with it, and its demonstration fails with it and passes without it.
# usage: confirm_seed.sh <worktree> <seed dir> <demo command>
set -u
wt="$1"; sd="$2"; demo="$3"
cd "$wt" || exit 2
clean() { git checkout -q -- . ; git clean -fdq src test 2>/dev/null; }
clean
git apply --check "$sd/patch.diff" && echo "applies: yes" || { echo "applies: NO"; exit 1; }
git apply "$sd/patch.diff"
echo "--- unedited test suite WITH change:"
cargo test --workspace --offline 2>&1 | grep -E "^test result|FAILED|^error" | sort | uniq -c | grep -v " 0 passed; 0 failed" | head -6
[ -f "$sd/demo.diff" ] && git apply "$sd/demo.diff"
echo "--- demo WITH change:"; bash -c "$demo" 2>&1 | grep -E "^test result|FAILED|PASS|FAIL:|exit" | head -4
clean
[ -f "$sd/demo.diff" ] && git apply "$sd/demo.diff"
echo "--- demo WITHOUT change:"; bash -c "$demo" 2>&1 | grep -E "^test result|FAILED|PASS|FAIL:|exit" | head -4
clean
