//! Oracles over the observables of one run (exit status, stderr, warning stream, announced checks).

use crate::run::{CliMode, RunOut, Selection};
use serde::{Deserialize, Serialize};
use std::collections::{BTreeMap, BTreeSet};

/// Same fields in the same order as the analyzer's warning type: the derived `Ord` is the
/// analyzer's canonical order (lexicographic on the seven fields, byte-wise string order).
#[derive(Clone, Debug, Serialize, Deserialize, PartialEq, Eq, PartialOrd, Ord, Hash)]
#[serde(deny_unknown_fields)]
pub struct Warning {
    pub name: String,
    pub version: String,
    pub addresses: Vec<String>,
    pub tids: Vec<String>,
    pub symbols: Vec<String>,
    pub other: Vec<Vec<String>>,
    pub description: String,
}

#[derive(Clone, Debug, Serialize, Deserialize, PartialEq, Eq)]
pub struct Violation {
    pub class: String,
    pub detail: String,
}

pub fn viol(class: impl Into<String>, detail: impl Into<String>) -> Violation {
    Violation { class: class.into(), detail: detail.into() }
}

/// What is known about the checks of the build under test.
#[derive(Clone, Debug, Default)]
pub struct Known {
    /// check name -> version, from `--module-versions` of the same build
    pub versions: BTreeMap<String, String>,
    /// check names found in the source tree (`pub static CWE_MODULE` definitions)
    pub source_names: BTreeSet<String>,
    /// the kernel-module subset (library constant `MODULES_LKM` ∩ known checks)
    pub lkm: BTreeSet<String>,
    /// checks outside that subset which nevertheless run on a kernel module with the shipped
    /// `lkm_config.json` (they do not read their configuration); found by probing the build
    pub lkm_selectable: BTreeSet<String>,
}

/// Warning names a check may emit besides its own name (documented in the checks' module docs).
pub fn emitted_names(check: &str) -> Vec<&'static str> {
    match check {
        "CWE119" => vec!["CWE119", "CWE125", "CWE787"],
        "CWE416" => vec!["CWE416", "CWE415"],
        "Memory" => vec!["Memory", "CWE476"],
        _ => vec![],
    }
}

pub fn may_emit(check: &str, warning_name: &str) -> bool {
    check == warning_name || emitted_names(check).contains(&warning_name)
}

/// Normalise a panic report into a call-site key that survives unrelated edits:
/// source file of the panic location, innermost `cwe_checker_lib`/`cwe_checker` frame, message
/// with numbers blanked.
pub fn panic_key(stderr: &str) -> Option<String> {
    let idx = stderr.find("panicked at ")?;
    let rest = &stderr[idx + "panicked at ".len()..];
    let loc_line = rest.lines().next().unwrap_or("");
    let file = loc_line.split(':').next().unwrap_or("").trim();
    let file = file.rsplit("/src/").next().unwrap_or(file);
    let msg = rest.lines().nth(1).unwrap_or("");
    let mut norm = String::new();
    let mut last_hash = false;
    for c in msg.chars().take(120) {
        if c.is_ascii_digit() {
            if !last_hash {
                norm.push('#');
                last_hash = true;
            }
        } else {
            norm.push(c);
            last_hash = false;
        }
    }
    let mut frame = String::new();
    for l in rest.lines() {
        let t = l.trim();
        if let Some(pos) = t.find(": ") {
            let f = &t[pos + 2..];
            if (f.starts_with("cwe_checker_lib::") || f.starts_with("cwe_checker::")) && !f.contains("verif_") {
                frame = f.split("::h").next().unwrap_or(f).to_string();
                // strip generic parameters
                if let Some(p) = frame.find('<') {
                    frame.truncate(p);
                }
                break;
            }
        }
    }
    Some(format!("{file} | {frame} | {norm}"))
}

/// Locate and parse the warning stream of a run.
pub enum Stream {
    Json(Vec<Warning>),
    /// text lines `[name] (version) description`
    Text(Vec<(String, String, String)>),
}

pub fn warning_bytes<'a>(mode: &CliMode, out: &'a RunOut) -> Result<&'a [u8], Violation> {
    if mode.out_file {
        match &out.out_file {
            Some(b) => Ok(b),
            None => Err(viol("no_output", "--out file was not written")),
        }
    } else {
        Ok(&out.stdout)
    }
}

pub fn parse_stream(mode: &CliMode, out: &RunOut) -> Result<Stream, Violation> {
    let bytes = warning_bytes(mode, out)?;
    let text = std::str::from_utf8(bytes).map_err(|_| viol("bad_output", "warning output is not UTF-8"))?;
    // without --quiet and without --out, log lines precede the warnings on stdout
    let body: &str = if !mode.quiet && !mode.out_file {
        if mode.json {
            // the pretty-printed array starts at the last line that is exactly "[" or "[]"
            let mut start = None;
            let mut pos = 0usize;
            for line in text.split_inclusive('\n') {
                let l = line.trim_end_matches('\n');
                if l == "[" || l == "[]" {
                    start = Some(pos);
                }
                pos += line.len();
            }
            match start {
                Some(s) => &text[s..],
                None => return Err(viol("bad_json", "no JSON array found on stdout")),
            }
        } else {
            // text mode with interleaved logs: only warning-shaped lines are looked at
            return Ok(Stream::Text(
                text.lines().filter(|l| l.starts_with('[')).filter_map(parse_text_line).collect(),
            ));
        }
    } else {
        text
    };
    if mode.json {
        let ws: Vec<Warning> = serde_json::from_str(body).map_err(|e| viol("bad_json", format!("warning output is not a JSON array of warnings: {e}")))?;
        Ok(Stream::Json(ws))
    } else {
        let mut v = Vec::new();
        for l in body.lines() {
            if l.is_empty() {
                continue;
            }
            match parse_text_line(l) {
                Some(t) => v.push(t),
                None => return Err(viol("bad_text_line", format!("text output line is not '[name] (version) description': {l:?}"))),
            }
        }
        Ok(Stream::Text(v))
    }
}

fn parse_text_line(l: &str) -> Option<(String, String, String)> {
    let l = l.strip_prefix('[')?;
    let (name, rest) = l.split_once("] (")?;
    let (version, desc) = rest.split_once(") ")?;
    Some((name.to_string(), version.to_string(), desc.to_string()))
}

/// Checks that must have been executed for this selection and input kind.
pub fn expected_checks(sel: &Selection, lkm: bool, known: &Known) -> BTreeSet<String> {
    match sel {
        Selection::Partial(list) => list.iter().filter(|s| !s.is_empty()).cloned().collect(),
        Selection::Default => {
            if lkm {
                known.lkm.clone()
            } else {
                known.versions.keys().filter(|k| k.as_str() != "CWE78").cloned().collect()
            }
        }
    }
}

/// C21: the run terminated normally and the warning stream is well-formed.
pub fn check_c21(mode: &CliMode, out: &RunOut, known: &Known, selected: &BTreeSet<String>) -> Result<Vec<Warning>, Violation> {
    if out.timed_out {
        return Err(viol("no_termination", "run exceeded the real-time tripwire"));
    }
    // A panic of the main thread leaves the log thread blocked, which the simulator then reports as
    // a deadlock as well: the first report decides the class.
    let first_panic = out.stderr.find("panicked at ");
    let deadlock = out.stderr.find("deadlock! blocked tasks");
    let first_is_deadlock = match (first_panic, deadlock) {
        (Some(p), Some(d)) => out.stderr[p..d].matches("panicked at ").count() == 1,
        (None, Some(_)) => true,
        _ => false,
    };
    if first_is_deadlock {
        return Err(viol("deadlock", "all threads blocked: the simulator's deadlock detector fired"));
    }
    if let Some(key) = panic_key(&out.stderr) {
        return Err(viol(format!("panic: {key}"), out.stderr.lines().skip_while(|l| !l.contains("panicked at")).take(2).collect::<Vec<_>>().join(" ")));
    }
    match out.exit {
        Some(0) => {}
        Some(c) => {
            let first = out.stderr.lines().find(|l| l.starts_with("Error")).unwrap_or("").to_string();
            return Err(viol(format!("exit_status_{c}"), first));
        }
        None => return Err(viol("killed_by_signal", "process ended by a signal (abort / stack overflow)")),
    }
    let stream = parse_stream(mode, out)?;
    let check_name_version = |name: &str, version: &str| -> Result<(), Violation> {
        let owners: Vec<&String> = known.versions.keys().filter(|c| may_emit(c, name)).collect();
        if owners.is_empty() {
            return Err(viol("unknown_check_name", format!("warning names unknown check {name:?}")));
        }
        if !owners.iter().any(|c| known.versions[*c] == version && selected.contains(*c)) {
            if !owners.iter().any(|c| known.versions[*c] == version) {
                return Err(viol("version_mismatch", format!("warning {name} carries version {version:?}, the module listing says {:?}", owners.iter().map(|c| &known.versions[*c]).collect::<Vec<_>>())));
            }
            return Err(viol("warning_of_unselected_check", format!("warning {name} ({version}) but none of the checks that emit it was selected")));
        }
        Ok(())
    };
    match stream {
        Stream::Json(ws) => {
            for w in &ws {
                check_name_version(&w.name, &w.version)?;
                if w.addresses.iter().any(|a| a.is_empty()) {
                    return Err(viol("bad_field", format!("empty address in warning {w:?}")));
                }
            }
            for pair in ws.windows(2) {
                if pair[0] > pair[1] {
                    return Err(viol("not_sorted", format!("warnings are not in canonical order: {:?} before {:?}", pair[0].description, pair[1].description)));
                }
            }
            Ok(ws)
        }
        Stream::Text(lines) => {
            for (n, v, _) in &lines {
                check_name_version(n, v)?;
            }
            for pair in lines.windows(2) {
                if (&pair[0].0, &pair[0].1) > (&pair[1].0, &pair[1].1) {
                    return Err(viol("not_sorted", format!("text lines are not ordered by check name and version: {:?} before {:?}", pair[0], pair[1])));
                }
            }
            Ok(lines
                .into_iter()
                .map(|(name, version, description)| Warning { name, version, addresses: vec![], tids: vec![], symbols: vec![], other: vec![], description })
                .collect())
        }
    }
}

/// C22 (per run): exactly the requested checks were executed, each once.
pub fn check_c22_run(mode: &CliMode, out: &RunOut, known: &Known, lkm: bool) -> Result<(), Violation> {
    let Some(ev) = &out.events else {
        return Err(viol("harness", "no event log written by the simulated CLI"));
    };
    let want = expected_checks(&mode.selection, lkm, known);
    let mut got: BTreeMap<&str, usize> = BTreeMap::new();
    for m in &ev.modules {
        *got.entry(m.as_str()).or_insert(0) += 1;
    }
    for (m, n) in &got {
        if !want.contains(*m) {
            return Err(viol("unrequested_check_executed", format!("check {m} was executed but is not in the requested set {want:?}")));
        }
        if *n != 1 {
            return Err(viol("check_executed_twice", format!("check {m} was executed {n} times")));
        }
    }
    for m in &want {
        if !got.contains_key(m.as_str()) {
            return Err(viol("requested_check_not_executed", format!("check {m} was requested but not executed (executed: {:?})", ev.modules)));
        }
    }
    Ok(())
}

/// Parse the output of `--module-versions`.
pub fn parse_module_versions(stdout: &str) -> Result<Vec<(String, String)>, Violation> {
    let mut lines = stdout.lines();
    if lines.next() != Some("[cwe_checker] module_versions:") {
        return Err(viol("module_versions_listing", "header line missing"));
    }
    let mut v = Vec::new();
    for l in lines {
        // "NAME": "VERSION"
        let parts: Vec<&str> = l.split('"').collect();
        if parts.len() != 5 || parts[2] != ": " {
            return Err(viol("module_versions_listing", format!("malformed line {l:?}")));
        }
        v.push((parts[1].to_string(), parts[3].to_string()));
    }
    Ok(v)
}
