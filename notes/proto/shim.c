#define _GNU_SOURCE
#include <stddef.h>
#include <stdint.h>
#include <stdlib.h>
#include <sys/types.h>
static uint64_t st; static int init;
static uint64_t next(void){ st += 0x9E3779B97F4A7C15ULL; uint64_t z=st; z=(z^(z>>30))*0xBF58476D1CE4E5B9ULL; z=(z^(z>>27))*0x94D049BB133111EBULL; return z^(z>>31);}
ssize_t getrandom(void *buf, size_t len, unsigned int flags){
  if(!init){ const char*e=getenv("SIM_ENTROPY"); st = e? strtoull(e,0,10):0; init=1; }
  unsigned char*p=buf; for(size_t i=0;i<len;i++){ if(i%8==0) { uint64_t r=next(); for(int k=0;k<8&&i+k<len;k++) p[i+k]=(r>>(8*k))&0xff; } }
  return len;
}
