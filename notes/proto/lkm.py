import struct, json, sys
sys.path.insert(0,'/tmp/feas/cli')
import gen
def lkm_elf():
    names=[b"",b".text",b".rodata",b".modinfo",b".gnu.linkonce.this_module",b".data",b".shstrtab"]
    shstr=b""; offs=[]
    for n in names: offs.append(len(shstr)); shstr+=n+b"\0"
    secs=[None,(1,6,0x4000,16),(1,2,0x1000,8),(1,2,0x40,1),(1,3,0x100,32),(1,3,0x100,8),(3,0,len(shstr),1)]  # (type, flags, size, align)
    ehsize=64; body=bytearray(ehsize); pos=ehsize; sh=[]
    for i,s in enumerate(secs):
        if s is None: sh.append(struct.pack("<IIQQQQIIQQ",0,0,0,0,0,0,0,0,0,0)); continue
        ty,fl,sz,al=s
        while pos%al: body.append(0); pos+=1
        data = shstr if i==len(secs)-1 else (b"license=GPL\0"+bytes(sz-12) if names[i]==b".modinfo" else bytes(sz))
        body+=data; sh.append(struct.pack("<IIQQQQIIQQ",offs[i],ty,fl,0,pos,sz,0,0,al,0)); pos+=sz
    while pos%8: body.append(0); pos+=1
    shoff=pos
    for h in sh: body+=h
    eh=b"\x7fELF"+bytes([2,1,1,0])+bytes(8)+struct.pack("<HHIQQQIHHHHHH",1,62,1,0,0,shoff,0,ehsize,0,0,64,len(secs),len(secs)-1)
    body[0:64]=eh
    return bytes(body)
seed=int(sys.argv[1]); out=sys.argv[2]
p=gen.gen(seed)
# rebase addresses: generator uses 0x400000-based addresses; ET_REL base 0 -> image_base chosen by Ghidra = 0x400000 here => address_base_offset = 0x400000
json.dump(p,open(out+".json","w")); open(out+".ko","wb").write(lkm_elf())
