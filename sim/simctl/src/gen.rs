//! Workload generator: P-Code projects inside the envelope of `src/ghidra/p_code_extractor`
//! plus a matching ELF image.
//!
//! Envelope (each production names the extractor source it is read off):
//! * TIDs: `prog_<min addr>`, `sub_<addr>`, `blk_<addr>`, `blk_<addr>_<n>` (intra-instruction
//!   blocks), `blk_<addr>_r` (return block after a mid-instruction call), `instr_<addr>_<pcode index>`
//!   — TermCreator.createProgramTerm/createBlkTerm/createDefTerm/createJmpTerm, JumpProcessing.
//! * a block ends in: nothing (defs only and no successor — handlePossibleDefinitionAtEndOfBlock),
//!   one jump, or CBRANCH + BRANCH (handleConditionalBranches).
//! * CALL/CALLIND carry a return label iff the instruction falls through (createCall);
//!   CALLOTHER has no target, a `call_string` and a return label; RETURN/BRANCHIND are indirect
//!   through a varnode; BRANCHIND carries `target_hints` (createIndirectJump).
//! * varnodes: register (name), unique (`$U<offset>`, is_virtual), constant (value, hex without
//!   prefix), address (implicit RAM operand: `address`) — TermCreator.createVariable. Gson omits nulls.
//! * LOAD/STORE carry the address-space id as constant input0.
//! * extern symbols: `sub_<thunk addr>`, `addresses` = thunk addresses, arguments in registers
//!   (parent register, full size) or `LOAD` stack slots, OUTPUT args for non-void functions,
//!   calling convention = default convention of the program — ExternSymbolCreator.
//! * `cpu_architecture` = `<processor>_<bits>` (HelperFunctions.getCpuArchitecture), register list
//!   with base register / lsb / size for every register, calling conventions from the cspec.

use crate::elf::{self, ElfSpec};
use serde_json::{json, Map, Value};
use simcommon::Rng;
use std::collections::BTreeSet;

#[derive(Clone, Debug)]
pub struct Profile {
    pub name: &'static str,
    pub ptr: u64,
    pub big_endian: bool,
    pub sp: &'static str,
    pub fp: &'static str,
    pub gpr: &'static [&'static str],
    pub params: &'static [&'static str],
    pub ret: &'static str,
    pub callee_saved: &'static [&'static str],
    pub killed: &'static [&'static str],
    /// (name, base, lsb, size)
    pub subregs: &'static [(&'static str, &'static str, u64, u64)],
    pub flags: &'static [&'static str],
    pub float_regs: &'static [(&'static str, &'static str, u64, u64)],
    pub float_params: &'static [&'static str],
    pub float_ret: &'static [&'static str],
    pub link: Option<&'static str>,
    pub pc: &'static str,
    pub stack_args: bool,
    pub x86: bool,
    pub cconv: &'static str,
    pub other_cconvs: &'static [&'static str],
    pub machine: u16,
    pub base: u64,
    pub int_size: u64,
}

pub const PROFILES: &[Profile] = &[
    Profile {
        name: "x86_64", ptr: 8, big_endian: false, sp: "RSP", fp: "RBP",
        gpr: &["RAX", "RBX", "RCX", "RDX", "RSI", "RDI", "R8", "R9", "R10", "R11", "R12", "R13", "R14", "R15"],
        params: &["RDI", "RSI", "RDX", "RCX", "R8", "R9"], ret: "RAX",
        callee_saved: &["RBX", "RBP", "RSP", "R12", "R13", "R14", "R15"],
        killed: &["RAX", "RCX", "RDX", "RSI", "RDI", "R8", "R9", "R10", "R11"],
        subregs: &[("EAX", "RAX", 0, 4), ("AX", "RAX", 0, 2), ("AL", "RAX", 0, 1), ("AH", "RAX", 1, 1), ("EBX", "RBX", 0, 4), ("ECX", "RCX", 0, 4), ("CL", "RCX", 0, 1), ("EDX", "RDX", 0, 4), ("ESI", "RSI", 0, 4), ("EDI", "RDI", 0, 4), ("R8D", "R8", 0, 4), ("R9D", "R9", 0, 4), ("ESP", "RSP", 0, 4), ("EBP", "RBP", 0, 4)],
        flags: &["ZF", "CF", "SF", "OF", "PF"],
        float_regs: &[("YMM0", "YMM0", 0, 32), ("XMM0", "YMM0", 0, 16), ("XMM0_Qa", "YMM0", 0, 8), ("XMM0_Da", "YMM0", 0, 4), ("YMM1", "YMM1", 0, 32), ("XMM1", "YMM1", 0, 16), ("XMM1_Qa", "YMM1", 0, 8)],
        float_params: &["XMM0_Qa", "XMM1_Qa"], float_ret: &["XMM0_Qa"],
        link: None, pc: "RIP", stack_args: false, x86: true, cconv: "__stdcall", other_cconvs: &["MSABI", "syscall", "__thiscall"],
        machine: 62, base: 0x400000, int_size: 4,
    },
    Profile {
        name: "x86_32", ptr: 4, big_endian: false, sp: "ESP", fp: "EBP",
        gpr: &["EAX", "EBX", "ECX", "EDX", "ESI", "EDI"],
        params: &[], ret: "EAX",
        callee_saved: &["EBX", "EBP", "ESP", "ESI", "EDI"],
        killed: &["EAX", "ECX", "EDX"],
        subregs: &[("AX", "EAX", 0, 2), ("AL", "EAX", 0, 1), ("AH", "EAX", 1, 1), ("CX", "ECX", 0, 2), ("CL", "ECX", 0, 1), ("DX", "EDX", 0, 2)],
        flags: &["ZF", "CF", "SF", "OF", "PF"],
        float_regs: &[("ST0", "ST0", 0, 10)],
        float_params: &[], float_ret: &["ST0"],
        link: None, pc: "EIP", stack_args: true, x86: true, cconv: "__cdecl", other_cconvs: &["__stdcall", "__fastcall", "__thiscall"],
        machine: 3, base: 0x8048000, int_size: 4,
    },
    Profile {
        name: "ARM_32", ptr: 4, big_endian: false, sp: "sp", fp: "r11",
        gpr: &["r0", "r1", "r2", "r3", "r4", "r5", "r6", "r7", "r8", "r9", "r10", "r12"],
        params: &["r0", "r1", "r2", "r3"], ret: "r0",
        callee_saved: &["r4", "r5", "r6", "r7", "r8", "r9", "r10", "r11", "sp"],
        killed: &["r0", "r1", "r2", "r3", "r12", "lr"],
        subregs: &[],
        flags: &["ZR", "CY", "NG", "OV"],
        float_regs: &[("d0", "q0", 0, 8), ("s0", "q0", 0, 4), ("q0", "q0", 0, 16)],
        float_params: &["d0"], float_ret: &["d0"],
        link: Some("lr"), pc: "pc", stack_args: false, x86: false, cconv: "__stdcall", other_cconvs: &[],
        machine: 40, base: 0x10000, int_size: 4,
    },
    Profile {
        name: "MIPS_32", ptr: 4, big_endian: true, sp: "sp", fp: "s8",
        gpr: &["v0", "v1", "a0", "a1", "a2", "a3", "t0", "t1", "t2", "t3", "s0", "s1", "s2", "s3", "t9", "gp"],
        params: &["a0", "a1", "a2", "a3"], ret: "v0",
        callee_saved: &["s0", "s1", "s2", "s3", "s8", "sp", "gp"],
        killed: &["v0", "v1", "a0", "a1", "a2", "a3", "t0", "t1", "t2", "t3", "t9", "ra"],
        subregs: &[],
        flags: &[],
        float_regs: &[("f0_1", "f0_1", 0, 8), ("f0", "f0_1", 4, 4), ("f1", "f0_1", 0, 4), ("f12_13", "f12_13", 0, 8), ("f12", "f12_13", 4, 4)],
        float_params: &["f12_13"], float_ret: &["f0_1"],
        link: Some("ra"), pc: "pc", stack_args: false, x86: false, cconv: "__stdcall", other_cconvs: &[],
        machine: 8, base: 0x400000, int_size: 4,
    },
    Profile {
        name: "AARCH64_64", ptr: 8, big_endian: false, sp: "sp", fp: "x29",
        gpr: &["x0", "x1", "x2", "x3", "x4", "x5", "x6", "x7", "x8", "x9", "x10", "x16", "x19", "x20", "x21", "x22"],
        params: &["x0", "x1", "x2", "x3", "x4", "x5", "x6", "x7"], ret: "x0",
        callee_saved: &["x19", "x20", "x21", "x22", "x29", "sp"],
        killed: &["x0", "x1", "x2", "x3", "x4", "x5", "x6", "x7", "x8", "x9", "x10", "x16", "x30"],
        subregs: &[("w0", "x0", 0, 4), ("w1", "x1", 0, 4), ("w2", "x2", 0, 4), ("w3", "x3", 0, 4), ("w8", "x8", 0, 4), ("w19", "x19", 0, 4)],
        flags: &["ZR", "CY", "NG", "OV"],
        float_regs: &[("q0", "q0", 0, 16), ("d0", "q0", 0, 8), ("s0", "q0", 0, 4), ("q1", "q1", 0, 16), ("d1", "q1", 0, 8)],
        float_params: &["d0", "d1"], float_ret: &["d0"],
        link: Some("x30"), pc: "pc", stack_args: false, x86: false, cconv: "__cdecl", other_cconvs: &[],
        machine: 183, base: 0x400000, int_size: 4,
    },
    Profile {
        name: "PowerPC_32", ptr: 4, big_endian: true, sp: "r1", fp: "r31",
        gpr: &["r0", "r3", "r4", "r5", "r6", "r7", "r8", "r9", "r10", "r11", "r12", "r14", "r15", "r29", "r30"],
        params: &["r3", "r4", "r5", "r6", "r7", "r8", "r9", "r10"], ret: "r3",
        callee_saved: &["r14", "r15", "r29", "r30", "r31", "r1"],
        killed: &["r0", "r3", "r4", "r5", "r6", "r7", "r8", "r9", "r10", "r11", "r12", "LR"],
        subregs: &[],
        flags: &[],
        float_regs: &[("f1", "f1", 0, 8), ("f2", "f2", 0, 8)],
        float_params: &["f1", "f2"], float_ret: &["f1"],
        link: Some("LR"), pc: "pc", stack_args: false, x86: false, cconv: "__stdcall", other_cconvs: &[],
        machine: 20, base: 0x10000000, int_size: 4,
    },
];

/// (name, number of parameters, has return value, no_return, var_args)
pub const USER_EXTERNS: &[(&str, usize, bool, bool, bool)] = &[
    ("malloc", 1, true, false, false), ("free", 1, false, false, false), ("realloc", 2, true, false, false),
    ("calloc", 2, true, false, false), ("strcpy", 2, true, false, false), ("strlen", 1, true, false, false),
    ("memcpy", 3, true, false, false), ("strcat", 2, true, false, false), ("system", 1, true, false, false),
    ("ioctl", 3, true, false, true), ("setuid", 1, true, false, false), ("access", 2, true, false, false),
    ("open", 2, true, false, true), ("umask", 1, true, false, false), ("chroot", 1, true, false, false),
    ("chdir", 1, true, false, false), ("printf", 1, true, false, true), ("sprintf", 2, true, false, true),
    ("snprintf", 3, true, false, true), ("scanf", 1, true, false, true), ("sscanf", 2, true, false, true),
    ("__isoc99_scanf", 0, true, false, true), ("rand", 0, true, false, false), ("srand", 1, false, false, false),
    ("time", 1, true, false, false), ("exit", 1, false, true, false), ("abort", 0, false, true, false),
    ("gets", 1, true, false, false), ("getenv", 1, true, false, false), ("fgets", 3, true, false, false),
    ("atoi", 1, true, false, false), ("puts", 1, true, false, false), ("strdup", 1, true, false, false),
    ("memset", 3, true, false, false), ("strncpy", 3, true, false, false), ("fopen", 2, true, false, false),
    ("read", 3, true, false, false), ("recv", 4, true, false, false),
];

pub const LKM_EXTERNS: &[(&str, usize, bool, bool, bool)] = &[
    ("__kmalloc", 2, true, false, false), ("kfree", 1, false, false, false), ("memcpy", 3, true, false, false),
    ("strcpy", 2, true, false, false), ("strlen", 1, true, false, false), ("memset", 3, true, false, false),
    ("printk", 1, true, false, true), ("kmalloc_trace", 3, true, false, false), ("kstrdup", 2, true, false, false),
    ("__ab_c_size", 3, true, false, false), ("add_mtd_device", 1, true, false, false), ("strncpy", 3, true, false, false),
    ("panic", 1, false, true, true), ("memcmp", 3, true, false, false),
];

#[derive(Clone, Debug, Default)]
pub struct Meta {
    pub arch: String,
    pub lkm: bool,
    pub elf_type: String,
    pub debug_sections: bool,
    pub functions: usize,
    pub blocks: usize,
    pub defs: usize,
    pub externs: Vec<String>,
    pub gadgets: Vec<String>,
    pub addresses: BTreeSet<String>,
}

pub struct Workload {
    pub pcode: Value,
    pub elf: Vec<u8>,
    pub meta: Meta,
}

fn hex(a: u64) -> String {
    format!("{a:08x}")
}

fn tid(id: String, addr: &str) -> Value {
    json!({"id": id, "address": addr})
}

fn reg(name: &str, size: u64) -> Value {
    json!({"name": name, "size": size, "is_virtual": false})
}

fn uniq(off: u64, size: u64) -> Value {
    json!({"name": format!("$U{off:x}"), "size": size, "is_virtual": true})
}

fn cst(v: u64, size: u64) -> Value {
    let masked = if size >= 8 { v } else { v & ((1u64 << (8 * size)) - 1) };
    json!({"value": format!("{masked:x}"), "size": size, "is_virtual": false})
}

fn ram(addr: u64, size: u64) -> Value {
    json!({"address": hex(addr), "size": size, "is_virtual": false})
}

fn expr(mn: &str, ins: &[Value]) -> Value {
    let mut m = Map::new();
    m.insert("mnemonic".into(), json!(mn));
    for (i, v) in ins.iter().enumerate() {
        m.insert(format!("input{i}"), v.clone());
    }
    Value::Object(m)
}

const SPACE_ID: u64 = 0x1b1;

/// One function under construction: blocks of defs with extractor-style TIDs.
struct Blk {
    tid_id: String,
    addr: u64,
    defs: Vec<Value>,
    jmps: Vec<Value>,
    /// next instruction address / pcode index inside the current instruction
    cur: u64,
    idx: u64,
}

impl Blk {
    fn new(addr: u64, suffix: Option<&str>) -> Blk {
        let tid_id = match suffix {
            Some(s) => format!("blk_{}_{}", hex(addr), s),
            None => format!("blk_{}", hex(addr)),
        };
        Blk { tid_id, addr, defs: vec![], jmps: vec![], cur: addr, idx: 0 }
    }
    /// start the next machine instruction
    fn next_insn(&mut self) {
        if self.idx > 0 {
            self.cur += 2 + (self.idx % 3);
            self.idx = 0;
        }
    }
    fn def(&mut self, lhs: Option<Value>, rhs: Value) {
        let t = tid(format!("instr_{}_{}", hex(self.cur), self.idx), &hex(self.cur));
        self.idx += 1;
        let mut term = Map::new();
        if let Some(l) = lhs {
            term.insert("lhs".into(), l);
        }
        term.insert("rhs".into(), rhs);
        self.defs.push(json!({"tid": t, "term": Value::Object(term)}));
    }
    fn jmp_tid(&mut self) -> Value {
        let t = tid(format!("instr_{}_{}", hex(self.cur), self.idx), &hex(self.cur));
        self.idx += 1;
        t
    }
    fn to_json(&self) -> Value {
        json!({"tid": tid(self.tid_id.clone(), &hex(self.addr)), "term": {"defs": self.defs, "jmps": self.jmps}})
    }
}

pub struct Gen<'a> {
    r: Rng,
    p: &'a Profile,
    lkm: bool,
    text: u64,
    rodata: u64,
    data: u64,
    externs: Vec<(String, u64, usize, bool, bool, bool)>,
    func_addrs: Vec<u64>,
    uniq_ctr: u64,
    meta: Meta,
    /// bias of the random code
    loopy: bool,
    cally: bool,
    long_blocks: bool,
    split_calls: bool,
    /// rarely seen but legal extractor output (see the items marked `exotic`)
    exotic: bool,
    /// address of the shared helper `h(p, n) { p[n] = 0; }` (0 = none in this program)
    helper: u64,
}

impl<'a> Gen<'a> {
    fn u(&mut self, size: u64) -> Value {
        self.uniq_ctr += 0x80;
        uniq(0x1000 + self.uniq_ctr, size)
    }
    fn any_gpr(&mut self) -> &'static str {
        let p = self.p;
        p.gpr[self.r.below(p.gpr.len() as u64) as usize]
    }
    fn ext(&self, name: &str) -> Option<(u64, usize, bool, bool)> {
        self.externs.iter().find(|e| e.0 == name).map(|e| (e.1, e.2, e.3, e.4))
    }
    fn note_addr(&mut self, a: u64) {
        self.meta.addresses.insert(hex(a));
    }

    // ---- instruction templates -------------------------------------------------------------

    fn i_mov_reg(&mut self, b: &mut Blk, dst: &str, src: &str) {
        b.next_insn();
        b.def(Some(reg(dst, self.p.ptr)), expr("COPY", &[reg(src, self.p.ptr)]));
    }
    fn i_mov_const(&mut self, b: &mut Blk, dst: &str, v: u64) {
        b.next_insn();
        b.def(Some(reg(dst, self.p.ptr)), expr("COPY", &[cst(v, self.p.ptr)]));
    }
    fn i_flags_of(&mut self, b: &mut Blk, r: &str) {
        let p = self.p;
        if p.flags.is_empty() {
            return;
        }
        b.def(Some(reg(p.flags[0], 1)), expr("INT_EQUAL", &[reg(r, p.ptr), cst(0, p.ptr)]));
        if self.r.chance(50) {
            b.def(Some(reg(p.flags[2], 1)), expr("INT_SLESS", &[reg(r, p.ptr), cst(0, p.ptr)]));
        }
    }
    fn i_arith(&mut self, b: &mut Blk, dst: &str, op: &str, src: Value) {
        let p = self.p;
        b.next_insn();
        if p.x86 && self.r.chance(40) && (op == "INT_ADD" || op == "INT_SUB") {
            let (c, o) = if op == "INT_ADD" { ("INT_CARRY", "INT_SCARRY") } else { ("INT_LESS", "INT_SBORROW") };
            b.def(Some(reg("CF", 1)), expr(c, &[reg(dst, p.ptr), src.clone()]));
            b.def(Some(reg("OF", 1)), expr(o, &[reg(dst, p.ptr), src.clone()]));
        }
        b.def(Some(reg(dst, p.ptr)), expr(op, &[reg(dst, p.ptr), src]));
        if p.x86 && self.r.chance(40) {
            self.i_flags_of(b, dst);
        }
    }
    fn i_load(&mut self, b: &mut Blk, dst: &str, base: &str, off: i64, size: u64) {
        let p = self.p;
        b.next_insn();
        let addr = if off == 0 && self.r.chance(70) {
            reg(base, p.ptr)
        } else {
            let t = self.u(p.ptr);
            b.def(Some(t.clone()), expr("INT_ADD", &[reg(base, p.ptr), cst(off as u64, p.ptr)]));
            t
        };
        if size == p.ptr {
            b.def(Some(reg(dst, p.ptr)), expr("LOAD", &[cst(SPACE_ID, 4), addr]));
        } else {
            let t = self.u(size);
            b.def(Some(t.clone()), expr("LOAD", &[cst(SPACE_ID, 4), addr]));
            let op = if self.r.chance(50) { "INT_ZEXT" } else { "INT_SEXT" };
            b.def(Some(reg(dst, p.ptr)), expr(op, &[t]));
        }
    }
    fn i_store(&mut self, b: &mut Blk, base: &str, off: i64, val: Value) {
        let p = self.p;
        b.next_insn();
        let addr = if off == 0 && self.r.chance(70) {
            reg(base, p.ptr)
        } else {
            let t = self.u(p.ptr);
            b.def(Some(t.clone()), expr("INT_ADD", &[reg(base, p.ptr), cst(off as u64, p.ptr)]));
            t
        };
        b.def(None, expr("STORE", &[cst(SPACE_ID, 4), addr, val]));
    }
    fn i_push(&mut self, b: &mut Blk, val: Value) {
        let p = self.p;
        b.next_insn();
        if p.x86 {
            b.def(Some(reg(p.sp, p.ptr)), expr("INT_SUB", &[reg(p.sp, p.ptr), cst(p.ptr, p.ptr)]));
            b.def(None, expr("STORE", &[cst(SPACE_ID, 4), reg(p.sp, p.ptr), val]));
        } else {
            b.def(Some(reg(p.sp, p.ptr)), expr("INT_ADD", &[reg(p.sp, p.ptr), cst((-(p.ptr as i64)) as u64, p.ptr)]));
            b.def(None, expr("STORE", &[cst(SPACE_ID, 4), reg(p.sp, p.ptr), val]));
        }
    }
    fn i_pop(&mut self, b: &mut Blk, dst: &str) {
        let p = self.p;
        b.next_insn();
        b.def(Some(reg(dst, p.ptr)), expr("LOAD", &[cst(SPACE_ID, 4), reg(p.sp, p.ptr)]));
        b.def(Some(reg(p.sp, p.ptr)), expr("INT_ADD", &[reg(p.sp, p.ptr), cst(p.ptr, p.ptr)]));
    }

    /// `cmp lhs, rhs` (or `test lhs, lhs`) followed by the condition of a conditional jump, the way
    /// flag architectures express comparisons: the flags are set from the operands, the branch
    /// condition is a boolean combination of flags (`jle`: ZF || OF != SF, `ja`: !CF && !ZF, ...).
    /// Returns the varnode holding the condition. `kind` selects the relation (0..10).
    fn cmp_and_cond(&mut self, b: &mut Blk, lhs: &str, rhs: Value, kind: u64) -> Value {
        let p = self.p;
        debug_assert!(p.flags.len() >= 4);
        let (zf, cf, sf, of) = (reg(p.flags[0], 1), reg(p.flags[1], 1), reg(p.flags[2], 1), reg(p.flags[3], 1));
        b.next_insn();
        if kind == 10 {
            // test lhs, lhs
            b.def(Some(cf.clone()), expr("COPY", &[cst(0, 1)]));
            b.def(Some(of.clone()), expr("COPY", &[cst(0, 1)]));
            let t = self.u(p.ptr);
            b.def(Some(t.clone()), expr("INT_AND", &[reg(lhs, p.ptr), reg(lhs, p.ptr)]));
            b.def(Some(sf.clone()), expr("INT_SLESS", &[t.clone(), cst(0, p.ptr)]));
            b.def(Some(zf.clone()), expr("INT_EQUAL", &[t, cst(0, p.ptr)]));
        } else {
            b.def(Some(cf.clone()), expr("INT_LESS", &[reg(lhs, p.ptr), rhs.clone()]));
            b.def(Some(of.clone()), expr("INT_SBORROW", &[reg(lhs, p.ptr), rhs.clone()]));
            let t = self.u(p.ptr);
            b.def(Some(t.clone()), expr("INT_SUB", &[reg(lhs, p.ptr), rhs]));
            b.def(Some(sf.clone()), expr("INT_SLESS", &[t.clone(), cst(0, p.ptr)]));
            b.def(Some(zf.clone()), expr("INT_EQUAL", &[t, cst(0, p.ptr)]));
        }
        b.next_insn();
        match kind {
            0 | 10 => zf,                                   // je / jz
            1 => { let c = self.u(1); b.def(Some(c.clone()), expr("BOOL_NEGATE", &[zf])); c }          // jne
            2 => { let c = self.u(1); b.def(Some(c.clone()), expr("INT_NOTEQUAL", &[of, sf])); c }      // jl
            3 => { let c = self.u(1); b.def(Some(c.clone()), expr("INT_EQUAL", &[of, sf])); c }         // jge
            4 => {                                                                                       // jle
                let t1 = self.u(1); b.def(Some(t1.clone()), expr("INT_NOTEQUAL", &[of, sf]));
                let c = self.u(1); b.def(Some(c.clone()), expr("BOOL_OR", &[zf, t1])); c
            }
            5 => {                                                                                       // jg
                let t1 = self.u(1); b.def(Some(t1.clone()), expr("INT_EQUAL", &[of, sf]));
                let t2 = self.u(1); b.def(Some(t2.clone()), expr("BOOL_NEGATE", &[zf]));
                let c = self.u(1); b.def(Some(c.clone()), expr("BOOL_AND", &[t2, t1])); c
            }
            6 => cf,                                                                                     // jb
            7 => { let c = self.u(1); b.def(Some(c.clone()), expr("BOOL_NEGATE", &[cf])); c }          // jae
            8 => { let c = self.u(1); b.def(Some(c.clone()), expr("BOOL_OR", &[cf, zf])); c }           // jbe
            _ => {                                                                                       // ja
                let t1 = self.u(1); b.def(Some(t1.clone()), expr("BOOL_NEGATE", &[cf]));
                let t2 = self.u(1); b.def(Some(t2.clone()), expr("BOOL_NEGATE", &[zf]));
                let c = self.u(1); b.def(Some(c.clone()), expr("BOOL_AND", &[t1, t2])); c
            }
        }
    }

    /// One random machine instruction.
    fn random_insn(&mut self, b: &mut Blk) {
        let p = self.p;
        let r1 = self.any_gpr();
        let r2 = if self.r.chance(20) { p.sp } else { self.any_gpr() };
        match self.r.below(24) {
            0 | 1 => self.i_mov_reg(b, r1, r2),
            2 | 3 => {
                let v = *self.r.pick(&[0u64, 1, 8, 0x10, 0xff, 0x1ff, 0o22, 0o666, 0x7fffffff, u64::MAX, 4, 0x1000]);
                self.i_mov_const(b, r1, v)
            }
            4 => {
                // pointer to global data / rodata
                let a = if self.r.chance(50) { self.rodata + 16 * self.r.below(6) } else { self.data + 8 * self.r.below(16) };
                self.i_mov_const(b, r1, a)
            }
            5 | 6 => {
                let mut off = *self.r.pick(&[0i64, 4, 8, -8, 16, -16, 0x20, -0x28, 0x100]);
                if self.exotic && self.r.chance(3) {
                    // absurd displacements (data decoded as code, obfuscation)
                    off = *self.r.pick(&[i64::MAX, i64::MAX - 7, i64::MIN, i64::MIN + 8, 0x7fff_fff8]);
                }
                let sz = *self.r.pick(&[p.ptr, p.ptr, p.ptr, 1, 2, 4]);
                self.i_load(b, r1, r2, off, sz.min(p.ptr))
            }
            7 | 8 => {
                let mut off = *self.r.pick(&[0i64, 4, 8, -8, 16, -16, 0x20, -0x28]);
                if self.exotic && self.r.chance(3) {
                    off = *self.r.pick(&[i64::MAX, i64::MAX - 7, i64::MIN, i64::MIN + 8, 0x7fff_fff8]);
                }
                let v = if self.r.chance(70) { reg(r1, p.ptr) } else { cst(self.r.below(256), *self.r.pick(&[1u64, 2, 4])) };
                self.i_store(b, r2, off, v)
            }
            9 | 10 => {
                let op = *self.r.pick(&["INT_ADD", "INT_SUB", "INT_ADD", "INT_AND", "INT_OR", "INT_XOR", "INT_MULT", "INT_LEFT", "INT_RIGHT", "INT_SRIGHT"]);
                let src = if self.r.chance(50) { reg(r2, p.ptr) } else { cst(*self.r.pick(&[1u64, 2, 4, 8, 0x10, 0x18, 0xfffffffffffffff0, 3, 0x40]), p.ptr) };
                self.i_arith(b, r1, op, src)
            }
            11 => {
                // lea r1, [sp + off]: pointer into the own stack frame
                let off = *self.r.pick(&[-8i64, -0x10, -0x18, -0x20, -0x40, 8, 0x10, 0]);
                b.next_insn();
                b.def(Some(reg(r1, p.ptr)), expr("INT_ADD", &[reg(p.sp, p.ptr), cst(off as u64, p.ptr)]));
            }
            12 => {
                // compare -> flag (or a temporary on flag-less architectures)
                b.next_insn();
                let op = *self.r.pick(&["INT_EQUAL", "INT_NOTEQUAL", "INT_LESS", "INT_SLESS", "INT_LESSEQUAL", "INT_SLESSEQUAL"]);
                let rhs = if self.r.chance(60) { cst(self.r.below(3), p.ptr) } else { reg(r2, p.ptr) };
                let f = if p.flags.is_empty() { reg(r1, 1.max(p.ptr)) } else { reg(*self.r.pick(p.flags), 1) };
                if p.flags.is_empty() {
                    let t = self.u(1);
                    b.def(Some(t.clone()), expr(op, &[reg(r2, p.ptr), rhs]));
                    b.def(Some(f), expr("INT_ZEXT", &[t]));
                } else {
                    b.def(Some(f), expr(op, &[reg(r1, p.ptr), rhs]));
                }
            }
            13 if !p.subregs.is_empty() => {
                // sub-register write, followed by the implicit zero extension x86-64 performs
                let (name, base, _lsb, size) = *self.r.pick(p.subregs);
                b.next_insn();
                let src = if self.r.chance(50) {
                    cst(self.r.below(200), size)
                } else {
                    let cands: Vec<_> = p.subregs.iter().filter(|s| s.3 == size).collect();
                    let s = *self.r.pick(&cands);
                    reg(s.0, size)
                };
                b.def(Some(reg(name, size)), expr("COPY", &[src]));
                if size == 4 && p.ptr == 8 {
                    b.def(Some(reg(base, 8)), expr("INT_ZEXT", &[reg(name, 4)]));
                }
            }
            14 if !p.subregs.is_empty() => {
                // read a sub-register: movzx / movsx / arithmetic on it
                let (name, _base, _lsb, size) = *self.r.pick(p.subregs);
                b.next_insn();
                if size < p.ptr {
                    let op = if self.r.chance(50) { "INT_ZEXT" } else { "INT_SEXT" };
                    b.def(Some(reg(r1, p.ptr)), expr(op, &[reg(name, size)]));
                } else {
                    b.def(Some(reg(r1, p.ptr)), expr("COPY", &[reg(name, size)]));
                }
            }
            15 => {
                // SUBPIECE / PIECE through temporaries
                b.next_insn();
                let half = p.ptr / 2;
                let lo = self.u(half);
                let hi = self.u(half);
                b.def(Some(lo.clone()), expr("SUBPIECE", &[reg(r2, p.ptr), cst(0, 4)]));
                b.def(Some(hi.clone()), expr("SUBPIECE", &[reg(r1, p.ptr), cst(half, 4)]));
                if self.r.chance(70) {
                    b.def(Some(reg(r1, p.ptr)), expr("PIECE", &[hi, lo]));
                } else {
                    b.def(Some(reg(r1, p.ptr)), expr("INT_ZEXT", &[lo]));
                }
            }
            16 => {
                // unary / casts / bit counting
                b.next_insn();
                match self.r.below(5) {
                    0 => b.def(Some(reg(r1, p.ptr)), expr("INT_NEGATE", &[reg(r2, p.ptr)])),
                    1 => b.def(Some(reg(r1, p.ptr)), expr("INT_2COMP", &[reg(r2, p.ptr)])),
                    2 => b.def(Some(reg(r1, p.ptr)), expr("POPCOUNT", &[reg(r2, p.ptr)])),
                    3 => b.def(Some(reg(r1, p.ptr)), expr("LZCOUNT", &[reg(r2, p.ptr)])),
                    _ => {
                        if p.flags.len() >= 2 {
                            let t = self.u(1);
                            b.def(Some(t.clone()), expr(*self.r.pick(&["BOOL_AND", "BOOL_OR", "BOOL_XOR"]), &[reg(p.flags[0], 1), reg(p.flags[1], 1)]));
                            b.def(Some(reg(p.flags[0], 1)), expr("BOOL_NEGATE", &[t]));
                        } else {
                            b.def(Some(reg(r1, p.ptr)), expr("INT_NEGATE", &[reg(r1, p.ptr)]));
                        }
                    }
                }
            }
            17 if !p.float_regs.is_empty() && self.r.chance(30) => {
                // floating point / vector constants live in .rodata and are loaded with the full
                // register width (16-byte SSE constants, 10-byte x87 constants, doubles)
                b.next_insn();
                let (f, _, _, fs) = *self.r.pick(p.float_regs);
                let a = self.rodata + 0x10 * self.r.below(8);
                if self.r.chance(60) {
                    b.def(Some(reg(f, fs)), expr("COPY", &[ram(a, fs)]));
                } else {
                    b.def(Some(reg(f, fs)), expr("LOAD", &[cst(SPACE_ID, 4), cst(a, p.ptr)]));
                }
            }
            17 => {
                // implicit RAM operands (address varnodes) as input or output
                b.next_insn();
                let a = if self.r.chance(25) { self.rodata + 8 * self.r.below(24) } else { self.data + 8 * self.r.below(16) };
                let a = if a >= self.rodata && a < self.rodata + 0x1000 && false { a } else { a };
                if self.r.chance(50) {
                    b.def(Some(reg(r1, p.ptr)), expr("COPY", &[ram(a, p.ptr)]));
                } else if self.r.chance(50) {
                    let a = self.data + 8 * self.r.below(16);
                    b.def(Some(ram(a, p.ptr)), expr("COPY", &[reg(r1, p.ptr)]));
                } else {
                    b.def(Some(reg(r1, p.ptr)), expr("INT_ADD", &[reg(r1, p.ptr), ram(a, p.ptr)]));
                }
            }
            18 => {
                let v = reg(r1, p.ptr);
                self.i_push(b, v)
            }
            19 => self.i_pop(b, r1),
            20 if !p.float_regs.is_empty() => {
                // floating point: rare, exercises the float expression types
                b.next_insn();
                let (f, _, _, fs) = *self.r.pick(p.float_regs);
                if fs == 8 || fs == 4 {
                    match self.r.below(5) {
                        0 => b.def(Some(reg(f, fs)), expr("INT2FLOAT", &[reg(r1, p.ptr)])),
                        1 => b.def(Some(reg(f, fs)), expr("FLOAT_ADD", &[reg(f, fs), reg(f, fs)])),
                        2 => b.def(Some(reg(r1, p.ptr)), expr("TRUNC", &[reg(f, fs)])),
                        3 => {
                            let fl = if p.flags.is_empty() { self.u(1) } else { reg(p.flags[0], 1) };
                            b.def(Some(fl), expr("FLOAT_NAN", &[reg(f, fs)]))
                        }
                        _ if self.exotic => match self.r.below(4) {
                            0 => b.def(Some(reg(f, fs)), expr(*self.r.pick(&["FLOAT_CEIL", "FLOAT_FLOOR", "FLOAT_ROUND", "CEIL", "FLOOR", "ROUND"]), &[reg(f, fs)])),
                            1 => {
                                let fl = if p.flags.is_empty() { self.u(1) } else { reg(*self.r.pick(p.flags), 1) };
                                b.def(Some(fl), expr(*self.r.pick(&["FLOAT_EQUAL", "FLOAT_NOTEQUAL", "FLOAT_LESS", "FLOAT_LESSEQUAL"]), &[reg(f, fs), reg(f, fs)]))
                            }
                            2 => b.def(Some(reg(f, fs)), expr(*self.r.pick(&["FLOAT_SUB", "FLOAT_MULT", "FLOAT_DIV"]), &[reg(f, fs), reg(f, fs)])),
                            _ => {
                                let t = self.u(if fs == 8 { 4 } else { 8 });
                                b.def(Some(t), expr("FLOAT2FLOAT", &[reg(f, fs)]))
                            }
                        },
                        _ => b.def(Some(reg(f, fs)), expr(*self.r.pick(&["FLOAT_NEG", "FLOAT_ABS", "FLOAT_SQRT"]), &[reg(f, fs)])),
                    }
                } else if self.exotic && fs >= 16 {
                    // wide vector registers: zero extension into and truncation out of them
                    if self.r.chance(50) {
                        b.def(Some(reg(f, fs)), expr("INT_ZEXT", &[reg(r1, p.ptr)]));
                    } else {
                        b.def(Some(reg(r1, p.ptr)), expr("SUBPIECE", &[reg(f, fs), cst(*self.r.pick(&[0u64, 4, 8]), 4)]));
                    }
                } else {
                    b.def(Some(reg(f, fs)), expr("COPY", &[reg(f, fs)]));
                }
            }
            21 => {
                // division family (division by zero is undefined in P-Code, the analysis must cope)
                let op = *self.r.pick(&["INT_DIV", "INT_REM", "INT_SDIV", "INT_SREM"]);
                let src = if self.r.chance(50) { reg(r2, p.ptr) } else { cst(self.r.below(5), p.ptr) };
                self.i_arith(b, r1, op, src)
            }
            _ => self.i_mov_reg(b, r1, r2),
        }
    }

    // ---- calls ------------------------------------------------------------------------------

    /// `args[i]`: how parameter i is set up before the call.
    fn setup_args(&mut self, b: &mut Blk, args: &[ArgV]) {
        let p = self.p;
        if p.stack_args {
            for a in args.iter().rev() {
                let v = self.arg_value(b, a);
                self.i_push(b, v);
            }
        } else {
            for (i, a) in args.iter().enumerate() {
                if i >= p.params.len() {
                    break;
                }
                match a {
                    ArgV::Keep => {}
                    _ => {
                        let v = self.arg_value(b, a);
                        b.next_insn();
                        b.def(Some(reg(p.params[i], p.ptr)), expr("COPY", &[v]));
                    }
                }
            }
        }
    }

    fn arg_value(&mut self, b: &mut Blk, a: &ArgV) -> Value {
        let p = self.p;
        match a {
            ArgV::Const(v) => cst(*v, p.ptr),
            ArgV::Reg(r) => reg(r, p.ptr),
            ArgV::Keep => reg(p.ret, p.ptr),
            ArgV::StackBuf(off) => {
                let t = self.u(p.ptr);
                b.next_insn();
                b.def(Some(t.clone()), expr("INT_ADD", &[reg(p.sp, p.ptr), cst(*off as u64, p.ptr)]));
                t
            }
        }
    }

    /// Ends `b` with a call and returns the follow-up block (if the call returns).
    fn end_with_call(&mut self, mut b: Blk, target: CallTarget, next_addr: u64, out: &mut Vec<Blk>) -> Option<Blk> {
        let p = self.p;
        b.next_insn();
        let ret_label = json!({"Direct": tid(format!("blk_{}", hex(next_addr)), &hex(next_addr))});
        if p.x86 {
            // the call instruction pushes the return address
            b.def(Some(reg(p.sp, p.ptr)), expr("INT_SUB", &[reg(p.sp, p.ptr), cst(p.ptr, p.ptr)]));
            b.def(None, expr("STORE", &[cst(SPACE_ID, 4), reg(p.sp, p.ptr), cst(next_addr, p.ptr)]));
        } else if let Some(lr) = p.link {
            b.def(Some(reg(lr, p.ptr)), expr("COPY", &[cst(next_addr, p.ptr)]));
        }
        self.note_addr(b.cur);
        let jt = b.jmp_tid();
        let (mnemonic, call, returns) = match target {
            CallTarget::Func(addr) => ("CALL", json!({"target": {"Direct": tid(format!("sub_{}", hex(addr)), &hex(addr))}, "return": ret_label}), true),
            CallTarget::Extern(addr, no_return) => {
                if no_return {
                    ("CALL", json!({"target": {"Direct": tid(format!("sub_{}", hex(addr)), &hex(addr))}}), false)
                } else {
                    ("CALL", json!({"target": {"Direct": tid(format!("sub_{}", hex(addr)), &hex(addr))}, "return": ret_label}), true)
                }
            }
            CallTarget::IndReg(r) => ("CALLIND", json!({"target": {"Indirect": reg(r, p.ptr)}, "return": ret_label}), true),
            CallTarget::IndMem(a) => ("CALLIND", json!({"target": {"Indirect": ram(a, p.ptr)}, "return": ret_label}), true),
            CallTarget::Other(name) => ("CALLOTHER", json!({"return": ret_label, "call_string": name}), true),
        };
        b.jmps.push(json!({"tid": jt, "term": {"mnemonic": mnemonic, "call": call}}));
        out.push(b);
        if returns { Some(Blk::new(next_addr, None)) } else { None }
    }

    fn end_with_return(&mut self, mut b: Blk, out: &mut Vec<Blk>) {
        let p = self.p;
        b.next_insn();
        let target = if p.x86 {
            b.def(Some(reg(p.pc, p.ptr)), expr("LOAD", &[cst(SPACE_ID, 4), reg(p.sp, p.ptr)]));
            b.def(Some(reg(p.sp, p.ptr)), expr("INT_ADD", &[reg(p.sp, p.ptr), cst(p.ptr, p.ptr)]));
            reg(p.pc, p.ptr)
        } else if self.r.chance(20) {
            let t = self.u(p.ptr);
            b.def(Some(t.clone()), expr("INT_AND", &[reg(p.link.unwrap(), p.ptr), cst(0xfffffffffffffffe, p.ptr)]));
            t
        } else {
            reg(p.link.unwrap(), p.ptr)
        };
        let jt = b.jmp_tid();
        b.jmps.push(json!({"tid": jt, "term": {"mnemonic": "RETURN", "goto": {"Indirect": target}}}));
        out.push(b);
    }

    fn call_extern_seq(&mut self, mut b: Blk, name: &str, args: &[ArgV], next_addr: u64, out: &mut Vec<Blk>) -> Option<Blk> {
        let Some((addr, _n, _ret, no_return)) = self.ext(name) else {
            // symbol not imported by this program: nothing to call
            return Some(b);
        };
        if self.split_calls && !self.p.stack_args && self.r.chance(35) {
            // The argument values are computed into scratch registers in one basic block; the call
            // site in the next block moves them into the parameter registers (value computed before a
            // join point, moved at the call). In between there may be a long run of instructions
            // that define many temporaries (immediates, frame addresses, register copies).
            let p = self.p;
            let scratch: Vec<&'static str> = p.gpr.iter().copied().filter(|g| !p.params.contains(g) && *g != p.ret).collect();
            let mut moved: Vec<(usize, &'static str)> = Vec::new();
            for (i, a) in args.iter().enumerate() {
                if i >= p.params.len() || i >= scratch.len() {
                    break;
                }
                if matches!(a, ArgV::Keep) {
                    continue;
                }
                let v = self.arg_value(&mut b, a);
                b.next_insn();
                b.def(Some(reg(scratch[i], p.ptr)), expr("COPY", &[v]));
                moved.push((i, scratch[i]));
            }
            let mid = next_addr - 0x20;
            if self.r.chance(60) {
                for _ in 0..self.r.range(50, 130) {
                    let t = self.u(p.ptr);
                    b.next_insn();
                    match self.r.below(3) {
                        0 => b.def(Some(t.clone()), expr("INT_ADD", &[reg(p.sp, p.ptr), cst(self.r.below(64) * 8, p.ptr)])),
                        1 => b.def(Some(t.clone()), expr("COPY", &[cst(self.r.below(4096), p.ptr)])),
                        _ => b.def(Some(t.clone()), expr("COPY", &[reg(p.fp, p.ptr)])),
                    }
                    if self.r.chance(40) {
                        b.def(None, expr("STORE", &[cst(SPACE_ID, 4), reg(p.sp, p.ptr), t]));
                    }
                }
            }
            b.next_insn();
            let jt = b.jmp_tid();
            b.jmps.push(json!({"tid": jt, "term": {"mnemonic": "BRANCH", "goto": {"Direct": tid(format!("blk_{}", hex(mid)), &hex(mid))}}}));
            out.push(b);
            self.note_addr(mid);
            b = Blk::new(mid, None);
            for (i, sc) in moved {
                b.next_insn();
                b.def(Some(reg(p.params[i], p.ptr)), expr("COPY", &[reg(sc, p.ptr)]));
            }
        } else {
            self.setup_args(&mut b, args);
        }
        // exotic: the disassembler sees no fall-through for this call instruction (last instruction
        // before data, no-return override at the call site): the call carries no return label
        let no_return = no_return || (self.exotic && self.r.chance(4));
        let r = self.end_with_call(b, CallTarget::Extern(addr, no_return), next_addr, out);
        // cdecl: the caller removes the arguments
        match r {
            Some(mut nb) => {
                if self.p.stack_args && !args.is_empty() {
                    nb.next_insn();
                    let p = self.p;
                    nb.def(Some(reg(p.sp, p.ptr)), expr("INT_ADD", &[reg(p.sp, p.ptr), cst(p.ptr * args.len() as u64, p.ptr)]));
                }
                Some(nb)
            }
            None => None,
        }
    }
}

#[derive(Clone, Debug)]
pub enum ArgV {
    Const(u64),
    Reg(&'static str),
    /// leave the parameter register as it is
    Keep,
    /// pointer into the own stack frame: sp + offset
    StackBuf(i64),
}

enum CallTarget {
    Func(u64),
    Extern(u64, bool),
    IndReg(&'static str),
    IndMem(u64),
    Other(&'static str),
}

/// Gadgets: short call sequences that make a specific check fire.
pub const GADGETS: &[&str] = &[
    "dangerous_call", "ioctl", "setuid_system", "chroot_only", "access_open", "umask_chmod", "malloc_sizeof_ptr",
    "rand_no_srand", "mult_malloc", "malloc_deref", "use_after_free", "double_free", "heap_overflow",
    "huge_malloc", "huge_stack", "printf_nonconst", "unchecked_return", "time_srand", "system_sprintf", "stack_overflow_store", "call_helper", "call_helper",
    "string_building", "string_building", "callee_frees", "callee_frees", "realloc_use", "call_helper_ptr", "call_helper_ptr",
    "dangling_return", "dangling_return", "malloc_deref_paths", "malloc_deref_paths",
    "alu_chain", "alu_chain", "sscanf_two_outputs", "call_alloc_driver", "call_alloc_driver",
    "buffer_loop", "buffer_loop", "sprintf_formats", "sprintf_formats", "system_cmd_paths", "global_addr_narrow",
    "slot_reuse_paths",
];

impl<'a> Gen<'a> {
    /// Emit gadget `g` starting in block `b`; `slots` yields fresh block addresses.
    fn gadget(&mut self, g: &str, mut b: Blk, slots: &mut dyn FnMut() -> u64, out: &mut Vec<Blk>) -> Option<Blk> {
        let p = self.p;
        let ret = p.ret;
        let sv = p.callee_saved[0]; // a callee-saved register to keep pointers across calls
        macro_rules! call {
            ($b:expr, $name:expr, $args:expr) => {{
                let next = slots();
                match self.call_extern_seq($b, $name, $args, next, out) {
                    Some(nb) => nb,
                    None => return None,
                }
            }};
        }
        let alloc = if self.lkm { "__kmalloc" } else { "malloc" };
        let free = if self.lkm { "kfree" } else { "free" };
        match g {
            "dangerous_call" => {
                let name = if self.lkm { "strcpy" } else { *self.r.pick(&["strcpy", "gets", "strcat", "strlen", "memcpy", "sprintf"]) };
                b = call!(b, name, &[ArgV::StackBuf(-0x40), ArgV::Keep, ArgV::Const(8)]);
            }
            "ioctl" => {
                b = call!(b, "ioctl", &[ArgV::Const(3), ArgV::Const(0x5401), ArgV::StackBuf(-0x20)]);
            }
            "setuid_system" => {
                b = call!(b, "setuid", &[ArgV::Const(0)]);
                b = call!(b, "system", &[ArgV::Const(self.rodata)]);
            }
            "chroot_only" => {
                b = call!(b, "chroot", &[ArgV::Const(self.rodata + 0x40)]);
            }
            "access_open" => {
                b = call!(b, "access", &[ArgV::Const(self.rodata + 0x40), ArgV::Const(4)]);
                b = call!(b, "open", &[ArgV::Const(self.rodata + 0x40), ArgV::Const(0)]);
            }
            "umask_chmod" => {
                b = call!(b, "umask", &[ArgV::Const(0o666)]);
            }
            "malloc_sizeof_ptr" => {
                b = call!(b, alloc, &[ArgV::Const(p.ptr), ArgV::Const(0xcc0)]);
            }
            "rand_no_srand" => {
                b = call!(b, "rand", &[]);
            }
            "mult_malloc" => {
                b.next_insn();
                let a0 = if p.stack_args { ret } else { p.params[0] };
                b.def(Some(reg(a0, p.ptr)), expr("INT_MULT", &[reg(a0, p.ptr), cst(8, p.ptr)]));
                b = call!(b, alloc, &[if p.stack_args { ArgV::Reg(ret) } else { ArgV::Keep }, ArgV::Const(0xcc0)]);
            }
            "malloc_deref" => {
                b = call!(b, alloc, &[ArgV::Const(0x20), ArgV::Const(0xcc0)]);
                let v = cst(1, p.ptr);
                self.i_store(&mut b, ret, 0, v);
                self.i_load(&mut b, sv, ret, 8, p.ptr);
            }
            "use_after_free" => {
                b = call!(b, alloc, &[ArgV::Const(0x20), ArgV::Const(0xcc0)]);
                self.i_mov_reg(&mut b, sv, ret);
                b = call!(b, free, &[ArgV::Reg(sv)]);
                self.i_load(&mut b, ret, sv, 0, p.ptr);
            }
            "double_free" => {
                b = call!(b, alloc, &[ArgV::Const(0x20), ArgV::Const(0xcc0)]);
                self.i_mov_reg(&mut b, sv, ret);
                b = call!(b, free, &[ArgV::Reg(sv)]);
                b = call!(b, free, &[ArgV::Reg(sv)]);
            }
            "heap_overflow" => {
                b = call!(b, alloc, &[ArgV::Const(0x10), ArgV::Const(0xcc0)]);
                let v = cst(0x41, 1);
                self.i_store(&mut b, ret, 0x18, v);
                self.i_load(&mut b, sv, ret, 0x40, p.ptr);
            }
            "huge_malloc" => {
                b = call!(b, alloc, &[ArgV::Const(0x4000_0000), ArgV::Const(0xcc0)]);
            }
            "huge_stack" => {
                b.next_insn();
                b.def(Some(reg(p.sp, p.ptr)), expr("INT_SUB", &[reg(p.sp, p.ptr), cst(0x10000, p.ptr)]));
                b.next_insn();
                b.def(Some(reg(p.sp, p.ptr)), expr("INT_ADD", &[reg(p.sp, p.ptr), cst(0x10000, p.ptr)]));
            }
            "printf_nonconst" => {
                // format string taken from a heap buffer / caller argument instead of .rodata
                b = call!(b, alloc, &[ArgV::Const(0x40), ArgV::Const(0xcc0)]);
                b = call!(b, "printf", &[ArgV::Reg(ret)]);
            }
            "unchecked_return" => {
                let name = if self.lkm { "add_mtd_device" } else { *self.r.pick(&["chdir", "atoi", "access", "fgets"]) };
                b = call!(b, name, &[ArgV::Const(self.rodata + 0x40), ArgV::Const(0)]);
                // the value is kept somewhere (callee-saved register, stack slot) but never looked at
                match self.r.below(3) {
                    0 => self.i_mov_reg(&mut b, sv, ret),
                    1 => { let v = reg(ret, p.ptr); self.i_store(&mut b, p.sp, -0x38, v); }
                    _ => {}
                }
                // overwrite the return register without ever looking at it
                self.i_mov_const(&mut b, ret, 0);
            }
            "time_srand" => {
                b = call!(b, "time", &[ArgV::Const(0)]);
                b = call!(b, "srand", &[ArgV::Reg(ret)]);
            }
            "system_sprintf" => {
                // sprintf(buf, "%s %d", user, n); system(buf)
                b = call!(b, "sprintf", &[ArgV::StackBuf(-0x60), ArgV::Const(self.rodata + 0x10), ArgV::Keep]);
                b = call!(b, "system", &[ArgV::StackBuf(-0x60)]);
            }
            "string_building" if !self.lkm => {
                // command string assembled from constant pieces along two paths that join, then
                // extended in a loop and handed to system(): exercises the string domains (merge,
                // widening, normalisation)
                let join = slots();
                let other = slots();
                b = call!(b, "sprintf", &[ArgV::StackBuf(-0x80), ArgV::Const(self.rodata + 0x50), ArgV::Const(self.rodata + 0x20), ArgV::Const(5)]);
                b.next_insn();
                let cond = if p.flags.is_empty() { let c = self.u(1); b.def(Some(c.clone()), expr("INT_EQUAL", &[reg(ret, p.ptr), cst(0, p.ptr)])); c } else { b.def(Some(reg(p.flags[0], 1)), expr("INT_EQUAL", &[reg(ret, p.ptr), cst(0, p.ptr)])); reg(p.flags[0], 1) };
                let j0 = b.jmp_tid();
                let j1 = b.jmp_tid();
                let next = slots();
                b.jmps.push(json!({"tid": j0, "term": {"mnemonic": "CBRANCH", "goto": {"Direct": tid(format!("blk_{}", hex(other)), &hex(other))}, "condition": cond}}));
                b.jmps.push(json!({"tid": j1, "term": {"mnemonic": "BRANCH", "goto": {"Direct": tid(format!("blk_{}", hex(next)), &hex(next))}}}));
                out.push(b);
                // path 1
                self.note_addr(next);
                let mut b1 = Blk::new(next, None);
                b1 = match self.call_extern_seq(b1, "strcat", &[ArgV::StackBuf(-0x80), ArgV::Const(self.rodata)], join, out) { Some(x) => x, None => return None };
                let _ = b1;
                // path 2
                self.note_addr(other);
                let mut b2 = Blk::new(other, None);
                b2 = match self.call_extern_seq(b2, "strcat", &[ArgV::StackBuf(-0x80), ArgV::Const(self.rodata + 0x40)], join, out) { Some(x) => x, None => return None };
                let _ = b2;
                // join: loop appending, then system()
                self.note_addr(join);
                b = Blk::new(join, None);
                let loop_head = join;
                let after = slots();
                b = match self.call_extern_seq(b, "strcat", &[ArgV::StackBuf(-0x80), ArgV::Const(self.rodata + 0x30)], after, out) { Some(x) => x, None => return None };
                b.next_insn();
                let cond = if p.flags.is_empty() { let c = self.u(1); b.def(Some(c.clone()), expr("INT_SLESS", &[reg(ret, p.ptr), cst(3, p.ptr)])); c } else { b.def(Some(reg(p.flags[1], 1)), expr("INT_LESS", &[reg(ret, p.ptr), cst(3, p.ptr)])); reg(p.flags[1], 1) };
                let j0 = b.jmp_tid();
                let j1 = b.jmp_tid();
                let fin = slots();
                b.jmps.push(json!({"tid": j0, "term": {"mnemonic": "CBRANCH", "goto": {"Direct": tid(format!("blk_{}", hex(loop_head)), &hex(loop_head))}, "condition": cond}}));
                b.jmps.push(json!({"tid": j1, "term": {"mnemonic": "BRANCH", "goto": {"Direct": tid(format!("blk_{}", hex(fin)), &hex(fin))}}}));
                out.push(b);
                self.note_addr(fin);
                b = Blk::new(fin, None);
                b = call!(b, "system", &[ArgV::StackBuf(-0x80)]);
            }
            "callee_frees" if self.helper != 0 && !p.stack_args => {
                // the buffer is released by a helper one or two calls deep and used afterwards
                b = call!(b, alloc, &[ArgV::Const(0x20), ArgV::Const(0xcc0)]);
                self.i_mov_reg(&mut b, sv, ret);
                self.setup_args(&mut b, &[ArgV::Reg(sv)]);
                let next = slots();
                let target = if self.r.chance(50) { self.helper + 0x100 } else { self.helper + 0x200 };
                b = match self.end_with_call(b, CallTarget::Func(target), next, out) { Some(x) => x, None => return None };
                if self.r.chance(50) {
                    self.i_load(&mut b, ret, sv, 8, p.ptr);
                } else {
                    b = call!(b, free, &[ArgV::Reg(sv)]);
                }
            }
            "realloc_use" if !self.lkm => {
                b = call!(b, "malloc", &[ArgV::Const(0x10)]);
                self.i_mov_reg(&mut b, sv, ret);
                b = call!(b, "realloc", &[ArgV::Reg(sv), ArgV::Const(0x40)]);
                let v = cst(7, 1);
                self.i_store(&mut b, sv, 4, v);
            }
            "dangling_return" if self.helper != 0 && !p.stack_args => {
                // make_tmp() { p = malloc(..); free(p); return p; } called from several sites, the
                // returned pointer is used after each call
                let target = self.helper + 0x400;
                for _ in 0..self.r.range(1, 2) {
                    let next = slots();
                    b = match self.end_with_call(b, CallTarget::Func(target), next, out) { Some(x) => x, None => return None };
                    if self.r.chance(70) {
                        self.i_load(&mut b, sv, ret, 0, p.ptr);
                    } else {
                        let v = cst(1, p.ptr);
                        self.i_store(&mut b, ret, 8, v);
                    }
                }
            }
            "malloc_deref_paths" => {
                // the unchecked result of an allocation is accessed on several paths
                b = call!(b, alloc, &[ArgV::Const(0x40), ArgV::Const(0xcc0)]);
                self.i_mov_reg(&mut b, sv, ret);
                let n = self.r.range(2, 4);
                let join = slots();
                for k in 0..n {
                    let here = slots();
                    let nextc = slots();
                    b.next_insn();
                    let idx_reg = p.killed[1 % p.killed.len()];
                    let cond = self.u(1);
                    b.def(Some(cond.clone()), expr("INT_EQUAL", &[reg(idx_reg, p.ptr), cst(k, p.ptr)]));
                    let j0 = b.jmp_tid();
                    let j1 = b.jmp_tid();
                    b.jmps.push(json!({"tid": j0, "term": {"mnemonic": "CBRANCH", "goto": {"Direct": tid(format!("blk_{}", hex(here)), &hex(here))}, "condition": cond}}));
                    b.jmps.push(json!({"tid": j1, "term": {"mnemonic": "BRANCH", "goto": {"Direct": tid(format!("blk_{}", hex(nextc)), &hex(nextc))}}}));
                    out.push(b);
                    self.note_addr(here);
                    let mut hb = Blk::new(here, None);
                    let v = cst(k, p.ptr);
                    self.i_store(&mut hb, sv, 8 * k as i64, v);
                    hb.next_insn();
                    let jt = hb.jmp_tid();
                    hb.jmps.push(json!({"tid": jt, "term": {"mnemonic": "BRANCH", "goto": {"Direct": tid(format!("blk_{}", hex(join)), &hex(join))}}}));
                    out.push(hb);
                    self.note_addr(nextc);
                    b = Blk::new(nextc, None);
                }
                b.next_insn();
                let jt = b.jmp_tid();
                b.jmps.push(json!({"tid": jt, "term": {"mnemonic": "BRANCH", "goto": {"Direct": tid(format!("blk_{}", hex(join)), &hex(join))}}}));
                out.push(b);
                self.note_addr(join);
                b = Blk::new(join, None);
            }
            "alu_chain" if !p.stack_args => {
                // integer mixing code (hash finalisers, checksums): a long chain of dependent ALU
                // operations on one register, a second register derived from it, and its use in a
                // store / call argument in the next block
                let acc = ret;
                let other = p.params[1 % p.params.len()];
                b.next_insn();
                b.def(Some(reg(acc, p.ptr)), expr("INT_MULT", &[reg(p.params[0], p.ptr), cst(3, p.ptr)]));
                for i in 0..self.r.range(9, 14) {
                    b.next_insn();
                    let op = *self.r.pick(&["INT_ADD", "INT_XOR", "INT_ADD", "INT_OR", "INT_SUB"]);
                    let src = if i % 3 == 2 { cst(self.r.below(255) + 1, p.ptr) } else { reg(other, p.ptr) };
                    b.def(Some(reg(acc, p.ptr)), expr(op, &[reg(acc, p.ptr), src]));
                }
                let derived = p.killed.iter().copied().find(|r| *r != acc && *r != other && !p.params[..1].contains(r)).unwrap_or(p.killed[0]);
                b.next_insn();
                b.def(Some(reg(derived, p.ptr)), expr("INT_ADD", &[reg(acc, p.ptr), cst(8, p.ptr)]));
                let nb = slots();
                b.next_insn();
                let jt = b.jmp_tid();
                b.jmps.push(json!({"tid": jt, "term": {"mnemonic": "BRANCH", "goto": {"Direct": tid(format!("blk_{}", hex(nb)), &hex(nb))}}}));
                out.push(b);
                self.note_addr(nb);
                b = Blk::new(nb, None);
                match self.r.below(3) {
                    0 => { let v = reg(derived, p.ptr); self.i_store(&mut b, p.sp, 0, v); }
                    1 => { let v = cst(0, p.ptr); self.i_store(&mut b, derived, 0, v); }
                    _ => self.i_load(&mut b, sv, derived, 0, p.ptr),
                }
                b = call!(b, alloc, &[ArgV::Keep, ArgV::Const(0xcc0)]);
            }
            "sscanf_two_outputs" if !self.lkm && !p.stack_args && p.params.len() >= 4 => {
                // sscanf("str1 str2", "%s %s", p, p + 0x10) with both outputs in one heap object
                b = call!(b, "malloc", &[ArgV::Const(0x40)]);
                self.i_mov_reg(&mut b, sv, ret);
                b.next_insn();
                b.def(Some(reg(p.params[3], p.ptr)), expr("INT_ADD", &[reg(sv, p.ptr), cst(*self.r.pick(&[0u64, 0x10, 0x20]), p.ptr)]));
                b = call!(b, "sscanf", &[ArgV::Const(self.rodata + 0x70), ArgV::Const(self.rodata + 0x60), ArgV::Reg(sv), ArgV::Keep]);
                b = call!(b, "system", &[ArgV::Reg(sv)]);
            }
            "call_alloc_driver" if self.helper != 0 && !p.stack_args => {
                // driver(16): calls sized_user(m), sized_user(m + 4|8), sized_user(m + i) for i < 9
                let target = self.helper + 0x600;
                let m = *self.r.pick(&[16u64, 16, 24, 32]);
                self.setup_args(&mut b, &[ArgV::Const(m)]);
                let next = slots();
                b = match self.end_with_call(b, CallTarget::Func(target), next, out) { Some(x) => x, None => return None };
            }
            "call_helper_ptr" if self.helper != 0 && !p.stack_args => {
                // helper_put(q) { *q = 0; } called with pointers at different offsets into one buffer,
                // once with a bounds-checked variable offset: the callee's parameter object has to be
                // related to the caller's buffer at every call site
                let size = *self.r.pick(&[0x10u64, 0x18, 0x20, 0x40]);
                b = call!(b, alloc, &[ArgV::Const(size), ArgV::Const(0xcc0)]);
                self.i_mov_reg(&mut b, sv, ret);
                let target = self.helper + 0x300;
                let n = self.r.range(2, 5);
                for k in 0..n {
                    let off = if self.r.chance(80) { 8 * k } else { self.r.below(80) };
                    b.next_insn();
                    b.def(Some(reg(p.params[0], p.ptr)), expr("INT_ADD", &[reg(sv, p.ptr), cst(off, p.ptr)]));
                    let next = slots();
                    b = match self.end_with_call(b, CallTarget::Func(target), next, out) { Some(x) => x, None => return None };
                }
                if self.r.chance(60) {
                    let idx_reg = p.callee_saved.iter().copied().find(|r| *r != sv && *r != p.sp && *r != p.fp).unwrap_or(p.killed[0]);
                    let call_blk = slots();
                    let skip_blk = slots();
                    b.next_insn();
                    let cond = self.u(1);
                    let bound = *self.r.pick(&[0x10u64, 0x18, 0x20, 7]);
                    b.def(Some(cond.clone()), expr("INT_LESSEQUAL", &[reg(idx_reg, p.ptr), cst(bound, p.ptr)]));
                    let j0 = b.jmp_tid();
                    let j1 = b.jmp_tid();
                    b.jmps.push(json!({"tid": j0, "term": {"mnemonic": "CBRANCH", "goto": {"Direct": tid(format!("blk_{}", hex(call_blk)), &hex(call_blk))}, "condition": cond}}));
                    b.jmps.push(json!({"tid": j1, "term": {"mnemonic": "BRANCH", "goto": {"Direct": tid(format!("blk_{}", hex(skip_blk)), &hex(skip_blk))}}}));
                    out.push(b);
                    self.note_addr(call_blk);
                    let mut cb = Blk::new(call_blk, None);
                    cb.def(Some(reg(p.params[0], p.ptr)), expr("INT_ADD", &[reg(sv, p.ptr), reg(idx_reg, p.ptr)]));
                    match self.end_with_call(cb, CallTarget::Func(target), skip_blk, out) {
                        Some(nb) => b = nb,
                        None => return None,
                    }
                    self.note_addr(skip_blk);
                }
            }
            "call_helper" if self.helper != 0 && !p.stack_args => {
                // the same helper is called from several sites with different constant indices
                // (interprocedural parameter substitution has to join the values of all call sites)
                let heap = self.r.chance(60);
                if heap {
                    let size = *self.r.pick(&[0x10u64, 0x18, 0x20]);
                    b = call!(b, alloc, &[ArgV::Const(size), ArgV::Const(0xcc0)]);
                    self.i_mov_reg(&mut b, sv, ret);
                }
                let n = self.r.range(2, 5);
                for k in 0..n {
                    let idx = if self.r.chance(80) { 8 * k } else { self.r.below(64) };
                    let buf = if heap { ArgV::Reg(sv) } else { ArgV::StackBuf(-0x40) };
                    let args = [buf, ArgV::Const(idx)];
                    self.setup_args(&mut b, &args);
                    let next = slots();
                    let helper = self.helper;
                    b = match self.end_with_call(b, CallTarget::Func(helper), next, out) {
                        Some(nb) => nb,
                        None => return None,
                    };
                }
                if self.r.chance(60) {
                    // one more call site passes a bounds-checked variable index:
                    //   if (i <= 0x10) helper(buf, i);
                    let idx_reg = p.callee_saved.iter().copied().find(|r| *r != sv && *r != p.sp && *r != p.fp).unwrap_or(p.killed[0]);
                    let call_blk = slots();
                    let skip_blk = slots();
                    b.next_insn();
                    let cond = self.u(1);
                    let bound = *self.r.pick(&[0x10u64, 0x18, 0x20, 7]);
                    b.def(Some(cond.clone()), expr(*self.r.pick(&["INT_LESSEQUAL", "INT_LESS"]), &[reg(idx_reg, p.ptr), cst(bound, p.ptr)]));
                    let j0 = b.jmp_tid();
                    let j1 = b.jmp_tid();
                    b.jmps.push(json!({"tid": j0, "term": {"mnemonic": "CBRANCH", "goto": {"Direct": tid(format!("blk_{}", hex(call_blk)), &hex(call_blk))}, "condition": cond}}));
                    b.jmps.push(json!({"tid": j1, "term": {"mnemonic": "BRANCH", "goto": {"Direct": tid(format!("blk_{}", hex(skip_blk)), &hex(skip_blk))}}}));
                    out.push(b);
                    self.note_addr(call_blk);
                    let mut cb = Blk::new(call_blk, None);
                    let buf = if heap { ArgV::Reg(sv) } else { ArgV::StackBuf(-0x40) };
                    let args = [buf, ArgV::Reg(idx_reg)];
                    self.setup_args(&mut cb, &args);
                    let helper = self.helper;
                    match self.end_with_call(cb, CallTarget::Func(helper), skip_blk, out) {
                        Some(nb) => b = nb,
                        None => return None,
                    }
                    self.note_addr(skip_blk);
                }
            }
            "buffer_loop" => {
                // a loop walking over a buffer (parameter, heap or stack) with the usual guards of
                // compiled code: unsigned bound, signed bound, "until the counter wraps" overflow
                // guards (`i >= 0`, `i > 0`), count-down loops
                let idx = p.callee_saved.iter().copied().find(|r| *r != sv && *r != p.sp && *r != p.fp).unwrap_or(p.killed[0]);
                let base: &'static str = match self.r.below(3) {
                    0 if !p.stack_args => p.params[0],
                    1 => {
                        let size = *self.r.pick(&[0x10u64, 0x40, 0x100]);
                        b = call!(b, alloc, &[ArgV::Const(size), ArgV::Const(0xcc0)]);
                        self.i_mov_reg(&mut b, sv, ret);
                        sv
                    }
                    _ => {
                        b.next_insn();
                        b.def(Some(reg(sv, p.ptr)), expr("INT_ADD", &[reg(p.sp, p.ptr), cst((-0x60i64) as u64, p.ptr)]));
                        sv
                    }
                };
                let head = slots();
                let body = slots();
                let exit = slots();
                let kind = self.r.below(6);
                let start = match kind { 4 => *self.r.pick(&[0x10u64, 0x3f, 0x100]), _ => self.r.below(2) };
                self.i_mov_const(&mut b, idx, start);
                b.next_insn();
                let jt = b.jmp_tid();
                b.jmps.push(json!({"tid": jt, "term": {"mnemonic": "BRANCH", "goto": {"Direct": tid(format!("blk_{}", hex(head)), &hex(head))}}}));
                out.push(b);
                // head: leave the loop when the guard fails
                self.note_addr(head);
                let mut hb = Blk::new(head, None);
                hb.next_insn();
                let fi = self.r.below(p.flags.len().max(1) as u64) as usize;
                let cond = if p.flags.is_empty() { self.u(1) } else { reg(p.flags[fi], 1) };
                let bound = *self.r.pick(&[0x10u64, 0x40, 0x41, 0x1000]);
                let e = match kind {
                    0 => expr("INT_SLESS", &[reg(idx, p.ptr), cst(0, p.ptr)]),            // while (i >= 0)
                    1 => expr("INT_SLESSEQUAL", &[reg(idx, p.ptr), cst(0, p.ptr)]),       // while (i > 0), counting up
                    2 => expr("INT_LESSEQUAL", &[cst(bound, p.ptr), reg(idx, p.ptr)]),    // while (i < bound) unsigned
                    3 => expr("INT_SLESSEQUAL", &[cst(bound, p.ptr), reg(idx, p.ptr)]),   // while (i < bound) signed
                    4 => expr("INT_SLESS", &[reg(idx, p.ptr), cst(0, p.ptr)]),            // count-down, while (i >= 0)
                    _ => expr("INT_EQUAL", &[reg(idx, p.ptr), cst(bound, p.ptr)]),        // while (i != bound)
                };
                let cond = if p.flags.len() >= 4 && matches!(kind, 2 | 3 | 5) && self.r.chance(50) {
                    // the same guard as cmp + jae / jge / je
                    self.cmp_and_cond(&mut hb, idx, cst(bound, p.ptr), match kind { 2 => 7, 3 => 3, _ => 0 })
                } else {
                    hb.def(Some(cond.clone()), e);
                    cond
                };
                let j0 = hb.jmp_tid();
                let j1 = hb.jmp_tid();
                hb.jmps.push(json!({"tid": j0, "term": {"mnemonic": "CBRANCH", "goto": {"Direct": tid(format!("blk_{}", hex(exit)), &hex(exit))}, "condition": cond}}));
                hb.jmps.push(json!({"tid": j1, "term": {"mnemonic": "BRANCH", "goto": {"Direct": tid(format!("blk_{}", hex(body)), &hex(body))}}}));
                out.push(hb);
                // body: p[i] = 0 (or a read); i += step
                self.note_addr(body);
                let mut bb = Blk::new(body, None);
                bb.next_insn();
                let a = self.u(p.ptr);
                bb.def(Some(a.clone()), expr("INT_ADD", &[reg(base, p.ptr), reg(idx, p.ptr)]));
                let width = *self.r.pick(&[1u64, 1, 4, p.ptr]);
                if self.r.chance(75) {
                    bb.def(None, expr("STORE", &[cst(SPACE_ID, 4), a, cst(0, width)]));
                } else {
                    let t = self.u(width);
                    bb.def(Some(t), expr("LOAD", &[cst(SPACE_ID, 4), a]));
                }
                let step = if kind == 4 { (-(*self.r.pick(&[1i64, 4]))) as u64 } else { *self.r.pick(&[1u64, 1, 3, 4, 8]) };
                bb.next_insn();
                bb.def(Some(reg(idx, p.ptr)), expr("INT_ADD", &[reg(idx, p.ptr), cst(step, p.ptr)]));
                bb.next_insn();
                let jt = bb.jmp_tid();
                bb.jmps.push(json!({"tid": jt, "term": {"mnemonic": "BRANCH", "goto": {"Direct": tid(format!("blk_{}", hex(head)), &hex(head))}}}));
                out.push(bb);
                self.note_addr(exit);
                b = Blk::new(exit, None);
            }
            "sprintf_formats" if !self.lkm => {
                // sprintf/snprintf into a stack or heap buffer with one of the format strings in
                // .rodata (percent signs, length modifiers, width/precision, flags), the result is
                // used as a command now and then
                let k = self.r.below(FORMATS.len() as u64);
                let fmt = self.rodata + 0x100 + 0x20 * k;
                let heap = self.r.chance(30);
                if heap {
                    b = call!(b, "malloc", &[ArgV::Const(0x80)]);
                    self.i_mov_reg(&mut b, sv, ret);
                }
                let dst = if heap { ArgV::Reg(sv) } else { ArgV::StackBuf(-0x70) };
                let arg = |r: &mut Rng| match r.below(4) { 0 => ArgV::Const(r.below(100)), 1 => ArgV::Keep, 2 => ArgV::StackBuf(-0x20), _ => ArgV::Const(0) };
                let a1 = arg(&mut self.r);
                let a2 = arg(&mut self.r);
                if self.r.chance(70) {
                    b = call!(b, "sprintf", &[dst.clone(), ArgV::Const(fmt), a1, a2]);
                } else {
                    b = call!(b, "snprintf", &[dst.clone(), ArgV::Const(0x40), ArgV::Const(fmt), a1, a2]);
                }
                if self.r.chance(40) {
                    b = call!(b, "system", &[dst]);
                }
            }
            "system_cmd_paths" if !self.lkm => {
                // cmd = "ls"; if (..) cmd = "pwd"; else if (..) { scanf("%s", buf); cmd = buf; } system(cmd);
                // the command lives in a callee-saved register or directly in the parameter register
                let n = self.r.range(2, 4);
                let join = slots();
                let direct = !p.stack_args && self.r.chance(50);
                let cmd: &'static str = if direct { p.params[0] } else { sv };
                self.i_mov_const(&mut b, cmd, self.rodata + 0x20);
                for k in 0..n {
                    let here = slots();
                    let nextc = slots();
                    b.next_insn();
                    let cond = self.u(1);
                    b.def(Some(cond.clone()), expr("INT_EQUAL", &[reg(p.killed[1 % p.killed.len()], p.ptr), cst(k, p.ptr)]));
                    let j0 = b.jmp_tid();
                    let j1 = b.jmp_tid();
                    b.jmps.push(json!({"tid": j0, "term": {"mnemonic": "CBRANCH", "goto": {"Direct": tid(format!("blk_{}", hex(here)), &hex(here))}, "condition": cond}}));
                    b.jmps.push(json!({"tid": j1, "term": {"mnemonic": "BRANCH", "goto": {"Direct": tid(format!("blk_{}", hex(nextc)), &hex(nextc))}}}));
                    out.push(b);
                    self.note_addr(here);
                    let mut hb = Blk::new(here, None);
                    match self.r.below(3) {
                        0 => { let o = *self.r.pick(&[0u64, 0x40, 0x70]); self.i_mov_const(&mut hb, cmd, self.rodata + o) }
                        1 => {
                            hb.next_insn();
                            hb.def(Some(reg(cmd, p.ptr)), expr("INT_ADD", &[reg(p.sp, p.ptr), cst((-0x50i64) as u64, p.ptr)]));
                        }
                        _ => {
                            let after = slots();
                            let name = if self.ext("scanf").is_some() && self.r.chance(50) { "scanf" } else { "__isoc99_scanf" };
                            hb = match self.call_extern_seq(hb, name, &[ArgV::Const(self.rodata + 0x60), ArgV::StackBuf(-0x50)], after, out) { Some(x) => x, None => return None };
                            hb.next_insn();
                            hb.def(Some(reg(cmd, p.ptr)), expr("INT_ADD", &[reg(p.sp, p.ptr), cst((-0x50i64) as u64, p.ptr)]));
                        }
                    }
                    hb.next_insn();
                    let jt = hb.jmp_tid();
                    hb.jmps.push(json!({"tid": jt, "term": {"mnemonic": "BRANCH", "goto": {"Direct": tid(format!("blk_{}", hex(join)), &hex(join))}}}));
                    out.push(hb);
                    self.note_addr(nextc);
                    b = Blk::new(nextc, None);
                }
                b.next_insn();
                let jt = b.jmp_tid();
                b.jmps.push(json!({"tid": jt, "term": {"mnemonic": "BRANCH", "goto": {"Direct": tid(format!("blk_{}", hex(join)), &hex(join))}}}));
                out.push(b);
                self.note_addr(join);
                b = Blk::new(join, None);
                b = call!(b, "system", &[if direct { ArgV::Keep } else { ArgV::Reg(sv) }]);
            }
            "global_addr_narrow" => {
                // a global is read pointer-sized and the address of a global is written somewhere as a
                // value narrower (or wider) than a pointer: `mov dword ptr [g], offset g` in non-PIE
                // x86-64 code, 32-bit handles, address constants in packed structures
                let g = self.data + 8 * self.r.below(8);
                let t = self.u(p.ptr);
                b.next_insn();
                b.def(Some(t), expr("LOAD", &[cst(SPACE_ID, 4), cst(g, p.ptr)]));
                let width = *self.r.pick(&[4u64, 4, 2, 8]);
                let v = cst(g, width);
                match self.r.below(3) {
                    0 => { b.next_insn(); b.def(None, expr("STORE", &[cst(SPACE_ID, 4), cst(g, p.ptr), v])); }
                    1 if !p.stack_args => self.i_store(&mut b, p.params[0], 8, v),
                    _ => {
                        b = call!(b, alloc, &[ArgV::Const(0x20), ArgV::Const(0xcc0)]);
                        self.i_store(&mut b, ret, 0, v);
                    }
                }
            }
            "slot_reuse_paths" => {
                // two joining paths keep values of different width in the same stack slot (stack
                // colouring of locals with disjoint lifetimes, unions): an int on one path, a pointer
                // on the other; the values are small numbers, addresses inside the image, registers
                let off = -(0x18 + 8 * self.r.below(4) as i64);
                let narrow = p.ptr / 2;
                let mut val = |r: &mut Rng, g: &Gen| -> Value {
                    let width = if r.chance(50) { narrow } else { p.ptr };
                    match r.below(5) {
                        0 => cst(g.rodata + 0x20, width),
                        1 => cst(g.text, width),
                        2 => cst(g.data + 8, width),
                        3 => cst(r.below(4096), width),
                        _ => if width == p.ptr { reg(ret, p.ptr) } else { cst(g.rodata, width) },
                    }
                };
                let mut rr = self.r.fork();
                let v1 = val(&mut rr, self);
                let v2 = val(&mut rr, self);
                let a = slots();
                let bb = slots();
                let join = slots();
                b.next_insn();
                let cond = self.u(1);
                b.def(Some(cond.clone()), expr("INT_EQUAL", &[reg(p.killed[1 % p.killed.len()], p.ptr), cst(0, p.ptr)]));
                let j0 = b.jmp_tid();
                let j1 = b.jmp_tid();
                b.jmps.push(json!({"tid": j0, "term": {"mnemonic": "CBRANCH", "goto": {"Direct": tid(format!("blk_{}", hex(a)), &hex(a))}, "condition": cond}}));
                b.jmps.push(json!({"tid": j1, "term": {"mnemonic": "BRANCH", "goto": {"Direct": tid(format!("blk_{}", hex(bb)), &hex(bb))}}}));
                out.push(b);
                for (addr, v) in [(a, v1), (bb, v2)] {
                    self.note_addr(addr);
                    let mut pb = Blk::new(addr, None);
                    self.i_store(&mut pb, p.sp, off, v);
                    pb.next_insn();
                    let jt = pb.jmp_tid();
                    pb.jmps.push(json!({"tid": jt, "term": {"mnemonic": "BRANCH", "goto": {"Direct": tid(format!("blk_{}", hex(join)), &hex(join))}}}));
                    out.push(pb);
                }
                self.note_addr(join);
                b = Blk::new(join, None);
                let lw = if self.r.chance(50) { narrow } else { p.ptr };
                self.i_load(&mut b, ret, p.sp, off, lw);
            }
            "stack_overflow_store" => {
                // write beyond the own frame into the caller's frame region
                let v = cst(0, p.ptr);
                self.i_store(&mut b, p.sp, 0x2000, v);
            }
            _ => {}
        }
        Some(b)
    }

    /// One function: prologue, a mix of random blocks and gadgets, epilogue.
    fn function(&mut self, fi: usize, gadgets: &[&str]) -> (Value, usize, usize) {
        let p = self.p;
        let faddr = self.func_addrs[fi];
        let nblocks = self.r.range(1, 8);
        // block slots: 0x40 bytes apart; gadget/call continuation blocks take further slots
        let mut next_slot = faddr;
        let mut slots = move || {
            next_slot += 0x40;
            next_slot
        };
        let mut planned: Vec<u64> = vec![faddr];
        for _ in 1..nblocks {
            planned.push(slots());
        }
        let mut out: Vec<Blk> = Vec::new();
        let frame = *self.r.pick(&[0u64, 0x18, 0x28, 0x48, 0x108]);
        let with_fp = self.r.chance(50);
        let mut gad_iter = gadgets.iter();
        for bi in 0..planned.len() {
            let mut b = Blk::new(planned[bi], None);
            self.note_addr(planned[bi]);
            if bi == 0 {
                // prologue
                if with_fp {
                    let v = reg(p.fp, p.ptr);
                    self.i_push(&mut b, v);
                    self.i_mov_reg(&mut b, p.fp, p.sp);
                }
                if frame > 0 {
                    let op = if p.x86 { "INT_SUB" } else { "INT_ADD" };
                    let c = if p.x86 { frame } else { (-(frame as i64)) as u64 };
                    b.next_insn();
                    b.def(Some(reg(p.sp, p.ptr)), expr(op, &[reg(p.sp, p.ptr), cst(c, p.ptr)]));
                }
                if p.x86 && self.r.chance(15) {
                    // stack alignment: and rsp, -16
                    b.next_insn();
                    b.def(Some(reg(p.sp, p.ptr)), expr("INT_AND", &[reg(p.sp, p.ptr), cst(0xfffffffffffffff0, p.ptr)]));
                }
            }
            // mostly short blocks; now and then a long straight-line block (unrolled loops, big
            // initialisers) with far more live variables than registers
            let n_insn = if self.long_blocks && self.r.chance(25) { self.r.range(60, 160) } else { self.r.below(7) };
            for _ in 0..n_insn {
                self.random_insn(&mut b);
            }
            let mut cur = Some(b);
            // gadgets are planted in the first blocks
            if bi < 2 || self.r.chance(30) {
                if let Some(g) = gad_iter.next() {
                    let blk = cur.take().unwrap();
                    cur = self.gadget(g, blk, &mut slots, &mut out);
                    if cur.is_some() {
                        self.meta.gadgets.push(g.to_string());
                    }
                }
            }
            let Some(mut b) = cur else { continue };
            let last = bi + 1 == planned.len();
            let fall = if last { None } else { Some(planned[bi + 1]) };
            let loopy = self.loopy;
            let pick_target = |r: &mut Rng| -> u64 {
                if loopy || r.chance(30) { planned[r.below(planned.len() as u64) as usize] } else { planned[(bi + 1 + r.below((planned.len() - bi) as u64) as usize).min(planned.len() - 1)] }
            };
            let choice = if last { if self.r.chance(85) { 0 } else { self.r.below(10) } } else { 1 + self.r.below(if self.cally { 14 } else { 11 }) };
            // early exits: a block in the middle of the function returns as well, so functions have
            // several return sites
            let early_return = !last && self.r.chance(8);
            let do_return = choice == 0 || early_return || (fall.is_none() && self.r.chance(70));
            match (choice, fall) {
                _ if do_return => {
                    // epilogue + return
                    if frame > 0 {
                        let op = if p.x86 { "INT_ADD" } else { "INT_ADD" };
                        b.next_insn();
                        b.def(Some(reg(p.sp, p.ptr)), expr(op, &[reg(p.sp, p.ptr), cst(frame, p.ptr)]));
                    }
                    if with_fp {
                        self.i_pop(&mut b, p.fp);
                    }
                    self.end_with_return(b, &mut out);
                }
                (_, None) => {
                    // last block without return: dead end, tail jump or jump back
                    match self.r.below(3) {
                        0 => out.push(b),
                        1 => {
                            let t = pick_target(&mut self.r);
                            b.next_insn();
                            let jt = b.jmp_tid();
                            b.jmps.push(json!({"tid": jt, "term": {"mnemonic": "BRANCH", "goto": {"Direct": tid(format!("blk_{}", hex(t)), &hex(t))}}}));
                            out.push(b);
                        }
                        _ => {
                            // tail call: BRANCH to the first block of another function
                            let t = self.func_addrs[self.r.below(self.func_addrs.len() as u64) as usize];
                            b.next_insn();
                            let jt = b.jmp_tid();
                            b.jmps.push(json!({"tid": jt, "term": {"mnemonic": "BRANCH", "goto": {"Direct": tid(format!("blk_{}", hex(t)), &hex(t))}}}));
                            out.push(b);
                        }
                    }
                }
                (1 | 2, Some(f)) => {
                    // conditional branch
                    let t = pick_target(&mut self.r);
                    b.next_insn();
                    let cond = if p.flags.is_empty() {
                        let c = self.u(1);
                        let r1 = self.any_gpr();
                        b.def(Some(c.clone()), expr(*self.r.pick(&["INT_EQUAL", "INT_NOTEQUAL", "INT_SLESS"]), &[reg(r1, p.ptr), cst(0, p.ptr)]));
                        c
                    } else if p.flags.len() >= 4 && self.r.chance(45) {
                        // cmp/test + jcc
                        let lhs = self.any_gpr();
                        let rhs = if self.r.chance(55) { cst(*self.r.pick(&[0u64, 1, 7, 0x10, 0x40, 0xff, 0x7fffffff, u64::MAX]), p.ptr) } else { reg(self.any_gpr(), p.ptr) };
                        let kind = self.r.below(11);
                        self.cmp_and_cond(&mut b, lhs, rhs, kind)
                    } else if self.r.chance(30) {
                        let c = self.u(1);
                        b.def(Some(c.clone()), expr("BOOL_NEGATE", &[reg(p.flags[0], 1)]));
                        c
                    } else {
                        reg(*self.r.pick(p.flags), 1)
                    };
                    let j0 = b.jmp_tid();
                    let j1 = b.jmp_tid();
                    b.jmps.push(json!({"tid": j0, "term": {"mnemonic": "CBRANCH", "goto": {"Direct": tid(format!("blk_{}", hex(t)), &hex(t))}, "condition": cond}}));
                    b.jmps.push(json!({"tid": j1, "term": {"mnemonic": "BRANCH", "goto": {"Direct": tid(format!("blk_{}", hex(f)), &hex(f))}}}));
                    out.push(b);
                }
                (3, Some(_)) => {
                    // mostly a jump inside the function; sometimes into a block of another function
                    // (shared tails: the analyzer duplicates such blocks per function)
                    let t = if self.exotic && self.r.chance(10) {
                        // exotic: jump to an address for which no block was emitted (createLabel names any address)
                        faddr + 0xf00 + 4 * self.r.below(8)
                    } else if self.r.chance(20) {
                        let f = self.func_addrs[self.r.below(self.func_addrs.len() as u64) as usize];
                        f + 0x40 * self.r.below(3)
                    } else {
                        pick_target(&mut self.r)
                    };
                    b.next_insn();
                    let jt = b.jmp_tid();
                    b.jmps.push(json!({"tid": jt, "term": {"mnemonic": "BRANCH", "goto": {"Direct": tid(format!("blk_{}", hex(t)), &hex(t))}}}));
                    out.push(b);
                }
                (4, Some(f)) => {
                    // plain fall through: the extractor adds a BRANCH after a def at the end of a block
                    b.next_insn();
                    if b.defs.is_empty() {
                        b.def(Some(reg(p.ret, p.ptr)), expr("COPY", &[reg(p.ret, p.ptr)]));
                    }
                    let jt = b.jmp_tid();
                    b.jmps.push(json!({"tid": jt, "term": {"mnemonic": "BRANCH", "goto": {"Direct": tid(format!("blk_{}", hex(f)), &hex(f))}}}));
                    out.push(b);
                }
                (5, Some(_)) => {
                    // indirect jump (switch table) with target hints
                    b.next_insn();
                    let r1 = self.any_gpr();
                    let hints: Vec<String> = (0..self.r.below(4)).map(|_| hex(pick_target(&mut self.r))).collect();
                    let jt = b.jmp_tid();
                    b.jmps.push(json!({"tid": jt, "term": {"mnemonic": "BRANCHIND", "goto": {"Indirect": reg(r1, p.ptr)}, "target_hints": hints}}));
                    out.push(b);
                }
                (6, Some(_)) if self.exotic && self.r.chance(50) => {
                    // exotic: user-defined op in the middle of an instruction: the rest of the instruction
                    // continues in the return block `blk_<addr>_r` (JumpProcessing.handleCallReturnPair)
                    b.next_insn();
                    let a = b.cur;
                    let jt = b.jmp_tid();
                    let rid = format!("blk_{}_r", hex(a));
                    b.jmps.push(json!({"tid": jt, "term": {"mnemonic": "CALLOTHER", "call": {"return": {"Direct": tid(rid.clone(), &hex(a))}, "call_string": "cpuid"}}}));
                    let idx = b.idx;
                    out.push(b);
                    let mut rb = Blk::new(a, Some("r"));
                    rb.tid_id = rid;
                    rb.idx = idx;
                    rb.def(Some(reg(p.ret, p.ptr)), expr("COPY", &[cst(0x756e6547, p.ptr)]));
                    if let Some(f) = fall {
                        let jt = rb.jmp_tid();
                        rb.jmps.push(json!({"tid": jt, "term": {"mnemonic": "BRANCH", "goto": {"Direct": tid(format!("blk_{}", hex(f)), &hex(f))}}}));
                    }
                    out.push(rb);
                }
                (6, Some(f)) => {
                    // CALLOTHER (e.g. syscall / cpuid) returning to the next block
                    let name = *self.r.pick(&["syscall", "cpuid", "swi", "LOCK", "trap"]);
                    if let Some(mut nb) = self.end_with_call(b, CallTarget::Other(name), f, &mut out) {
                        // continue directly in the fall-through block: it already exists as planned[bi+1]
                        nb.defs.clear();
                    }
                }
                (7, Some(f)) => {
                    let t = if self.r.chance(70) { CallTarget::IndReg(self.any_gpr()) } else { CallTarget::IndMem(self.data + 8 * self.r.below(8)) };
                    self.end_with_call(b, t, f, &mut out);
                }
                (8, Some(f)) | (11 | 12, Some(f)) => {
                    // call of another (or the same) function; exotic: a call into an address where the
                    // disassembler found no function (TermCreator.handleLabelsForCalls names it anyway)
                    let t = if self.exotic && self.r.chance(10) { self.text + 0xc00 + 0x10 * self.r.below(4) } else { self.func_addrs[self.r.below(self.func_addrs.len() as u64) as usize] };
                    if !p.stack_args && self.r.chance(60) {
                        let a = ArgV::StackBuf(-0x30);
                        let v = self.arg_value(&mut b, &a);
                        b.next_insn();
                        b.def(Some(reg(p.params[0], p.ptr)), expr("COPY", &[v]));
                    }
                    self.end_with_call(b, CallTarget::Func(t), f, &mut out);
                }
                (_, Some(f)) => {
                    // call of a random extern symbol
                    let e = self.externs[self.r.below(self.externs.len() as u64) as usize].clone();
                    let args: Vec<ArgV> = (0..e.2).map(|_| match self.r.below(5) {
                        0 => ArgV::Const(self.rodata + 16 * self.r.below(5)),
                        1 => ArgV::Const(self.r.below(64)),
                        2 => ArgV::StackBuf(-0x20 - 8 * self.r.below(6) as i64),
                        3 => ArgV::Keep,
                        _ => ArgV::Reg(self.any_gpr()),
                    }).collect();
                    self.setup_args(&mut b, &args);
                    if self.end_with_call(b, CallTarget::Extern(e.1, e.4), f, &mut out).is_some() && p.stack_args && !args.is_empty() {
                        // argument clean-up lands at the start of the fall-through block: skipped here on purpose
                    }
                }
            }
        }
        // trampolines and busy loops: blocks that consist of a single BRANCH (`for(;;);`, jump
        // tables compiled to jump chains, padding thunks). Targets are other trampolines or body blocks.
        if self.r.chance(25) {
            let n = self.r.range(2, 4) as usize;
            let tramp: Vec<u64> = (0..n).map(|_| slots()).collect();
            for (k, a) in tramp.iter().enumerate() {
                self.note_addr(*a);
                let mut b = Blk::new(*a, None);
                let t = if self.r.chance(70) { tramp[self.r.below(n as u64) as usize] } else { planned[self.r.below(planned.len() as u64) as usize] };
                if self.r.chance(20) {
                    // a dead assignment that the optimiser removes, leaving a jump-only block
                    b.def(Some(reg(p.flags.first().copied().unwrap_or(p.ret), if p.flags.is_empty() { p.ptr } else { 1 })), expr("COPY", &[cst(0, if p.flags.is_empty() { p.ptr } else { 1 })]));
                }
                b.next_insn();
                let jt = b.jmp_tid();
                b.jmps.push(json!({"tid": jt, "term": {"mnemonic": "BRANCH", "goto": {"Direct": tid(format!("blk_{}", hex(t)), &hex(t))}}}));
                out.push(b);
                // route one body block into the chain
                if k == 0 {
                    if let Some(src) = out.iter_mut().find(|x| x.jmps.len() == 1 && x.jmps[0]["term"]["mnemonic"] == "BRANCH" && !tramp.contains(&x.addr)) {
                        src.jmps[0]["term"]["goto"] = json!({"Direct": tid(format!("blk_{}", hex(*a)), &hex(*a))});
                    } else if let Some(src) = out.iter_mut().find(|x| x.jmps.len() == 2) {
                        src.jmps[0]["term"]["goto"] = json!({"Direct": tid(format!("blk_{}", hex(*a)), &hex(*a))});
                    }
                }
            }
        }
        // occasionally an intra-instruction block pair (same address, `_<n>` suffix) is appended
        if self.r.chance(15) {
            let a = slots();
            self.note_addr(a);
            let mut b0 = Blk::new(a, None);
            b0.next_insn();
            let cond = if p.flags.is_empty() { let c = self.u(1); b0.def(Some(c.clone()), expr("INT_EQUAL", &[reg(p.ret, p.ptr), cst(0, p.ptr)])); c } else { reg(p.flags[0], 1) };
            let j0 = b0.jmp_tid();
            let j1 = b0.jmp_tid();
            let inner = format!("blk_{}_{}", hex(a), b0.idx);
            b0.jmps.push(json!({"tid": j0, "term": {"mnemonic": "CBRANCH", "goto": {"Direct": tid(format!("blk_{}", hex(faddr)), &hex(faddr))}, "condition": cond}}));
            b0.jmps.push(json!({"tid": j1, "term": {"mnemonic": "BRANCH", "goto": {"Direct": tid(inner.clone(), &hex(a))}}}));
            let mut b1 = Blk::new(a, Some(&b0.idx.to_string()));
            b1.tid_id = inner;
            b1.idx = b0.idx;
            b1.def(Some(reg(p.ret, p.ptr)), expr("COPY", &[cst(1, p.ptr)]));
            let jt = b1.jmp_tid();
            b1.jmps.push(json!({"tid": jt, "term": {"mnemonic": "BRANCH", "goto": {"Direct": tid(format!("blk_{}", hex(faddr)), &hex(faddr))}}}));
            out.push(b0);
            out.push(b1);
        }
        // The extractor lists blocks in address order of the code blocks of the function body.
        out.sort_by(|a, b| (a.addr, a.tid_id.len()).cmp(&(b.addr, b.tid_id.len())));
        // the entry block is not necessarily first in the list (the analyzer must find it)
        if self.r.chance(10) && out.len() > 1 {
            let n = out.len();
            out.swap(0, n - 1);
        }
        let blocks: Vec<Value> = out.iter().map(|b| b.to_json()).collect();
        let ndefs: usize = out.iter().map(|b| b.defs.len()).sum();
        let mut term = Map::new();
        term.insert("name".into(), json!(if fi == 0 { "main".to_string() } else { format!("FUN_{}", hex(faddr)) }));
        term.insert("blocks".into(), json!(blocks));
        if !self.r.chance(15) {
            let cc = if self.r.chance(85) || p.other_cconvs.is_empty() { p.cconv } else { *self.r.pick(p.other_cconvs) };
            term.insert("calling_convention".into(), json!(cc));
        }
        (json!({"tid": tid(format!("sub_{}", hex(faddr)), &hex(faddr)), "term": Value::Object(term)}), out.len(), ndefs)
    }
}

fn register_properties(p: &Profile) -> Value {
    let mut v = Vec::new();
    let mut base = |name: &str, size: u64| v.push(json!({"register": name, "base_register": name, "lsb": 0, "size": size}));
    for r in p.gpr {
        base(r, p.ptr);
    }
    for r in [p.sp, p.fp, p.pc] {
        if !p.gpr.contains(&r) {
            base(r, p.ptr);
        }
    }
    if let Some(l) = p.link {
        base(l, p.ptr);
    }
    for f in p.flags {
        base(f, 1);
    }
    for (n, b, lsb, size) in p.subregs.iter().chain(p.float_regs.iter()) {
        v.push(json!({"register": n, "base_register": b, "lsb": lsb, "size": size}));
    }
    json!(v)
}

fn calling_conventions(p: &Profile, r: &mut Rng) -> Value {
    let mk = |name: &str, params: &[&str]| {
        json!({
            "calling_convention": name,
            "integer_parameter_register": params,
            "float_parameter_register": p.float_params,
            "return_register": [p.ret],
            "float_return_register": p.float_ret,
            "unaffected_register": p.callee_saved,
            "killed_by_call_register": p.killed,
        })
    };
    let mut v = vec![mk(p.cconv, p.params)];
    for other in p.other_cconvs {
        if r.chance(50) {
            let n = if p.params.is_empty() { 0 } else { r.range(1, p.params.len() as u64) as usize };
            v.push(mk(other, &p.params[..n]));
        }
    }
    r.shuffle(&mut v);
    json!(v)
}

fn rodata_bytes() -> Vec<u8> {
    let mut ro = vec![0u8; 0x100 + 0x20 * FORMATS.len()];
    let mut put = |off: usize, s: &[u8]| ro[off..off + s.len()].copy_from_slice(s);
    put(0x00, b"/bin/sh\0");
    put(0x10, b"%s %d\0");
    put(0x20, b"ls -la\0");
    put(0x30, b"%d\0");
    put(0x40, b"/tmp/x\0");
    put(0x50, b"hello %s, %x\n\0");
    put(0x60, b"%s %s\0");
    put(0x70, b"str1 str2\0");
    for (k, f) in FORMATS.iter().enumerate() {
        put(0x100 + 0x20 * k, f.as_bytes());
    }
    ro
}

/// Format strings for the `sprintf_formats` gadget (at `.rodata + 0x100 + 0x20 * k`, NUL padded).
pub const FORMATS: &[&str] = &[
    "%d%%, %d%%", "%5.1f%% done", "cpu %lu%%, mem %lu%%", "%-8s|%c|%08x", "%hhu.%hhu", "%%, %d", "[%s]", "%lld/%llu",
    "%s,%s", "%+d %#x", "100%", "%*d", "%zu bytes", "id=%i;",
];

pub fn generate(seed: u64) -> Workload {
    let mut r = Rng::new(seed);
    let lkm = r.chance(12);
    let p: &Profile = if lkm { &PROFILES[0] } else { &PROFILES[[0usize, 0, 0, 1, 2, 3, 4, 5][r.below(8) as usize]] };
    let pie = !lkm && r.chance(15);
    let debug_sections = r.chance(if lkm { 30 } else { 45 });
    let nfuncs = r.range(1, 8) as usize;
    let text_size = 0x1000 + 0x1000 * nfuncs as u64;
    let spec = ElfSpec {
        class64: p.ptr == 8,
        big_endian: p.big_endian,
        machine: p.machine,
        etype: if lkm { 1 } else if pie { 3 } else { 2 },
        base: if pie { 0 } else { p.base },
        text_size,
        rodata: rodata_bytes(),
        data_size: 0x200,
        bss_size: 0x400,
        debug_sections,
        // derived from the workload seed without a draw, so that all other choices stay as they were
        merged_names: lkm && seed % 2 == 1,
    };
    // address the extractor reports = image base chosen by Ghidra + offset in the image
    let (elf_bytes, image_base, text, rodata, data) = if lkm {
        let (bytes, t, ro, d) = elf::build_lkm(&spec);
        let ib = 0x100000u64;
        (bytes, ib, ib + t, ib + ro, ib + d)
    } else {
        let bytes = elf::build_exec(&spec);
        // some position-independent 64-bit images are placed across the 4 GiB line, so that the
        // addresses of one program are spelled with different widths (8 and 9 hex digits);
        // derived from the workload seed without a draw
        let ib = if pie && p.ptr == 8 && seed % 4 == 3 { 0xffff_e000u64 } else if pie { 0x100000u64 } else { p.base };
        let (ro, d) = elf::layout(&spec);
        (bytes, ib, ib, ib + (ro - spec.base), ib + (d - spec.base))
    };
    // imported symbols
    let table = if lkm { LKM_EXTERNS } else { USER_EXTERNS };
    let mut externs = Vec::new();
    let keep_percent = *r.pick(&[100u64, 100, 80, 50]);
    for (i, e) in table.iter().enumerate() {
        if r.chance(keep_percent) {
            externs.push((e.0.to_string(), text + 0x100 + 16 * i as u64, e.1, e.2, e.3, e.4));
        }
    }
    if externs.is_empty() {
        let e = table[0];
        externs.push((e.0.to_string(), text + 0x100, e.1, e.2, e.3, e.4));
    }
    let func_addrs: Vec<u64> = (0..nfuncs).map(|i| text + 0x1000 + 0x1000 * i as u64).collect();
    let mut meta = Meta {
        arch: p.name.to_string(),
        lkm,
        elf_type: if lkm { "ET_REL(lkm)".into() } else if pie { "ET_DYN".into() } else { "ET_EXEC".into() },
        debug_sections,
        functions: nfuncs,
        externs: externs.iter().map(|e| e.0.clone()).collect(),
        ..Default::default()
    };
    meta.gadgets.clear();
    let mut g = Gen {
        r: r.fork(),
        p,
        lkm,
        text,
        rodata,
        data,
        externs,
        func_addrs: func_addrs.clone(),
        uniq_ctr: 0,
        meta,
        loopy: r.chance(35),
        cally: r.chance(50),
        long_blocks: r.chance(30),
        split_calls: r.chance(40),
        exotic: r.chance(30),
        helper: 0,
    };
    if !p.stack_args && r.chance(35) {
        g.helper = text + 0x400;
    }
    // distribute gadgets over functions
    let ngad = *r.pick(&[0u64, 2, 4, 6, 8, 10]);
    let mut per_func: Vec<Vec<&str>> = vec![Vec::new(); nfuncs];
    for _ in 0..ngad {
        let gd = *r.pick(GADGETS);
        let f = r.below(nfuncs as u64) as usize;
        per_func[f].push(gd);
        if gd == "dangling_return" && nfuncs > 1 {
            // the same helper is also used by another function
            per_func[(f + 1 + r.below(nfuncs as u64 - 1) as usize) % nfuncs].push(gd);
        }
    }
    let mut subs = Vec::new();
    for fi in 0..nfuncs {
        let (s, nb, nd) = g.function(fi, &per_func[fi]);
        g.meta.blocks += nb;
        g.meta.defs += nd;
        subs.push(s);
    }
    if g.helper != 0 {
        // helper(p, n): p[n] = 0; return p[0]
        let a = g.helper;
        let mut b = Blk::new(a, None);
        let t = g.u(p.ptr);
        b.def(Some(t.clone()), expr("INT_ADD", &[reg(p.params[0], p.ptr), reg(p.params[1], p.ptr)]));
        b.def(None, expr("STORE", &[cst(SPACE_ID, 4), t, cst(0, 1)]));
        let t2 = g.u(1);
        b.next_insn();
        b.def(Some(t2.clone()), expr("LOAD", &[cst(SPACE_ID, 4), reg(p.params[0], p.ptr)]));
        b.def(Some(reg(p.ret, p.ptr)), expr("INT_ZEXT", &[t2]));
        let mut outb = Vec::new();
        g.end_with_return(b, &mut outb);
        g.note_addr(a);
        subs.push(json!({"tid": tid(format!("sub_{}", hex(a)), &hex(a)), "term": {"name": "helper_set", "blocks": outb.iter().map(|b| b.to_json()).collect::<Vec<_>>(), "calling_convention": p.cconv}}));
    }
    if g.helper != 0 {
        // helper_put(q) { *q = 0; q[8] = 1; }
        let a = g.helper + 0x300;
        let mut b = Blk::new(a, None);
        b.def(None, expr("STORE", &[cst(SPACE_ID, 4), reg(p.params[0], p.ptr), cst(0, 1)]));
        let t = g.u(p.ptr);
        b.next_insn();
        b.def(Some(t.clone()), expr("INT_ADD", &[reg(p.params[0], p.ptr), cst(8, p.ptr)]));
        b.def(None, expr("STORE", &[cst(SPACE_ID, 4), t, cst(1, 1)]));
        let mut outb = Vec::new();
        g.end_with_return(b, &mut outb);
        g.note_addr(a);
        subs.push(json!({"tid": tid(format!("sub_{}", hex(a)), &hex(a)), "term": {"name": "helper_put", "blocks": outb.iter().map(|b| b.to_json()).collect::<Vec<_>>(), "calling_convention": p.cconv}}));
    }
    if g.helper != 0 {
        // sized_user(n) { p = alloc(n); p[20] = 0; }  and
        // driver(m) { sized_user(m); sized_user(m + (c ? 4 : 8)); for (i = 0; i < 9; i++) sized_user(m + i); }
        let alloc_name = if lkm { "__kmalloc" } else { "malloc" };
        let user = g.helper + 0x500;
        let driver = g.helper + 0x600;
        let keep = p.callee_saved[0];
        let ctr = p.callee_saved.iter().copied().find(|r| *r != keep && *r != p.sp && *r != p.fp).unwrap_or(p.killed[0]);
        let mut outb = Vec::new();
        let mut ok = false;
        if let Some((alloc_addr, _, _, _)) = g.ext(alloc_name) {
            let b = Blk::new(user, None);
            if let Some(mut b1) = g.end_with_call(b, CallTarget::Extern(alloc_addr, false), user + 0x40, &mut outb) {
                let t = g.u(p.ptr);
                b1.def(Some(t.clone()), expr("INT_ADD", &[reg(p.ret, p.ptr), cst(20, p.ptr)]));
                b1.def(None, expr("STORE", &[cst(SPACE_ID, 4), t, cst(0, 1)]));
                g.end_with_return(b1, &mut outb);
                ok = true;
            }
        }
        if !ok {
            outb.clear();
            g.end_with_return(Blk::new(user, None), &mut outb);
        }
        g.note_addr(user);
        subs.push(json!({"tid": tid(format!("sub_{}", hex(user)), &hex(user)), "term": {"name": "sized_user", "blocks": outb.iter().map(|b| b.to_json()).collect::<Vec<_>>(), "calling_convention": p.cconv}}));
        // driver
        let a = |k: u64| driver + 0x20 * k;
        let blk_tid = |addr: u64| json!({"Direct": tid(format!("blk_{}", hex(addr)), &hex(addr))});
        let mut outb = Vec::new();
        let mut b0 = Blk::new(a(0), None);
        b0.def(Some(reg(keep, p.ptr)), expr("COPY", &[reg(p.params[0], p.ptr)]));
        let mut cur = g.end_with_call(b0, CallTarget::Func(user), a(1), &mut outb);
        if let Some(mut b1) = cur.take() {
            // c ? 4 : 8
            let cond = if p.flags.is_empty() { let c = g.u(1); b1.def(Some(c.clone()), expr("INT_EQUAL", &[reg(ctr, p.ptr), cst(0, p.ptr)])); c } else { b1.def(Some(reg(p.flags[0], 1)), expr("INT_EQUAL", &[reg(ctr, p.ptr), cst(0, p.ptr)])); reg(p.flags[0], 1) };
            let j0 = b1.jmp_tid();
            let j1 = b1.jmp_tid();
            b1.jmps.push(json!({"tid": j0, "term": {"mnemonic": "CBRANCH", "goto": blk_tid(a(2)), "condition": cond}}));
            b1.jmps.push(json!({"tid": j1, "term": {"mnemonic": "BRANCH", "goto": blk_tid(a(3))}}));
            outb.push(b1);
            for (k, c) in [(2u64, 4u64), (3, 8)] {
                let mut bb = Blk::new(a(k), None);
                bb.def(Some(reg(p.params[0], p.ptr)), expr("INT_ADD", &[reg(keep, p.ptr), cst(c, p.ptr)]));
                bb.next_insn();
                let jt = bb.jmp_tid();
                bb.jmps.push(json!({"tid": jt, "term": {"mnemonic": "BRANCH", "goto": blk_tid(a(4))}}));
                outb.push(bb);
            }
            let b4 = Blk::new(a(4), None);
            if let Some(mut b5) = g.end_with_call(b4, CallTarget::Func(user), a(5), &mut outb) {
                b5.def(Some(reg(ctr, p.ptr)), expr("COPY", &[cst(0, p.ptr)]));
                b5.next_insn();
                let jt = b5.jmp_tid();
                b5.jmps.push(json!({"tid": jt, "term": {"mnemonic": "BRANCH", "goto": blk_tid(a(6))}}));
                outb.push(b5);
                // loop head: i < 9
                let mut b6 = Blk::new(a(6), None);
                let cond = if p.flags.len() > 1 { b6.def(Some(reg(p.flags[1], 1)), expr("INT_LESS", &[reg(ctr, p.ptr), cst(9, p.ptr)])); reg(p.flags[1], 1) } else { let c = g.u(1); b6.def(Some(c.clone()), expr("INT_LESS", &[reg(ctr, p.ptr), cst(9, p.ptr)])); c };
                let j0 = b6.jmp_tid();
                let j1 = b6.jmp_tid();
                b6.jmps.push(json!({"tid": j0, "term": {"mnemonic": "CBRANCH", "goto": blk_tid(a(7)), "condition": cond}}));
                b6.jmps.push(json!({"tid": j1, "term": {"mnemonic": "BRANCH", "goto": blk_tid(a(9))}}));
                outb.push(b6);
                let mut b7 = Blk::new(a(7), None);
                b7.def(Some(reg(p.params[0], p.ptr)), expr("INT_ADD", &[reg(keep, p.ptr), reg(ctr, p.ptr)]));
                if let Some(mut b8) = g.end_with_call(b7, CallTarget::Func(user), a(8), &mut outb) {
                    b8.def(Some(reg(ctr, p.ptr)), expr("INT_ADD", &[reg(ctr, p.ptr), cst(1, p.ptr)]));
                    b8.next_insn();
                    let jt = b8.jmp_tid();
                    b8.jmps.push(json!({"tid": jt, "term": {"mnemonic": "BRANCH", "goto": blk_tid(a(6))}}));
                    outb.push(b8);
                }
                g.end_with_return(Blk::new(a(9), None), &mut outb);
            }
        }
        for k in 0..10 {
            g.note_addr(a(k));
        }
        subs.push(json!({"tid": tid(format!("sub_{}", hex(driver)), &hex(driver)), "term": {"name": "driver", "blocks": outb.iter().map(|b| b.to_json()).collect::<Vec<_>>(), "calling_convention": p.cconv}}));
    }
    if g.helper != 0 {
        // make_tmp() { p = alloc(0x20); free(p); return p; }
        let alloc_name = if lkm { "__kmalloc" } else { "malloc" };
        let free_name = if lkm { "kfree" } else { "free" };
        let a = g.helper + 0x400;
        let mut outb = Vec::new();
        let sv = p.callee_saved[0];
        let mut ok = false;
        if let (Some((alloc_addr, _, _, _)), Some((free_addr, _, _, _))) = (g.ext(alloc_name), g.ext(free_name)) {
            let mut b = Blk::new(a, None);
            b.def(Some(reg(p.params[0], p.ptr)), expr("COPY", &[cst(0x20, p.ptr)]));
            if let Some(mut b1) = g.end_with_call(b, CallTarget::Extern(alloc_addr, false), a + 0x40, &mut outb) {
                b1.def(Some(reg(sv, p.ptr)), expr("COPY", &[reg(p.ret, p.ptr)]));
                b1.next_insn();
                b1.def(Some(reg(p.params[0], p.ptr)), expr("COPY", &[reg(sv, p.ptr)]));
                if let Some(mut b2) = g.end_with_call(b1, CallTarget::Extern(free_addr, false), a + 0x80, &mut outb) {
                    b2.def(Some(reg(p.ret, p.ptr)), expr("COPY", &[reg(sv, p.ptr)]));
                    g.end_with_return(b2, &mut outb);
                    ok = true;
                }
            }
        }
        if !ok {
            outb.clear();
            g.end_with_return(Blk::new(a, None), &mut outb);
        }
        g.note_addr(a);
        subs.push(json!({"tid": tid(format!("sub_{}", hex(a)), &hex(a)), "term": {"name": "make_tmp", "blocks": outb.iter().map(|b| b.to_json()).collect::<Vec<_>>(), "calling_convention": p.cconv}}));
    }
    if g.helper != 0 {
        // release(p) { free(p); }  and  release2(p) { release(p); }  — frees hidden in callees
        let free_name = if lkm { "kfree" } else { "free" };
        if let Some((free_addr, _, _, _)) = g.ext(free_name) {
            let a1 = g.helper + 0x100;
            let a2 = g.helper + 0x200;
            let mut outb = Vec::new();
            let b = Blk::new(a1, None);
            if let Some(nb) = g.end_with_call(b, CallTarget::Extern(free_addr, false), a1 + 0x40, &mut outb) {
                g.end_with_return(nb, &mut outb);
            }
            g.note_addr(a1);
            subs.push(json!({"tid": tid(format!("sub_{}", hex(a1)), &hex(a1)), "term": {"name": "release", "blocks": outb.iter().map(|b| b.to_json()).collect::<Vec<_>>(), "calling_convention": p.cconv}}));
            let mut outb = Vec::new();
            let b = Blk::new(a2, None);
            if let Some(nb) = g.end_with_call(b, CallTarget::Func(a1), a2 + 0x40, &mut outb) {
                g.end_with_return(nb, &mut outb);
            }
            g.note_addr(a2);
            subs.push(json!({"tid": tid(format!("sub_{}", hex(a2)), &hex(a2)), "term": {"name": "release2", "blocks": outb.iter().map(|b| b.to_json()).collect::<Vec<_>>(), "calling_convention": p.cconv}}));
        } else {
            // without an imported free() the wrappers are plain functions that return
            for a in [g.helper + 0x100, g.helper + 0x200] {
                let mut outb = Vec::new();
                g.end_with_return(Blk::new(a, None), &mut outb);
                subs.push(json!({"tid": tid(format!("sub_{}", hex(a)), &hex(a)), "term": {"name": "release_stub", "blocks": outb.iter().map(|b| b.to_json()).collect::<Vec<_>>(), "calling_convention": p.cconv}}));
            }
        }
    }
    if g.exotic {
        // exotic: a function without any block (e.g. a body the disassembler could not recover)
        if r.chance(30) {
            let a = text + 0xd00;
            subs.push(json!({"tid": tid(format!("sub_{}", hex(a)), &hex(a)), "term": {"name": format!("FUN_{}", hex(a)), "blocks": [], "calling_convention": p.cconv}}));
        }
        // exotic: overlapping function bodies: the same block is listed in two functions
        if r.chance(40) && subs.len() >= 2 {
            let from = r.below(subs.len() as u64) as usize;
            let to = r.below(subs.len() as u64) as usize;
            let nb = subs[from]["term"]["blocks"].as_array().map_or(0, |b| b.len());
            if from != to && nb > 1 && !subs[to]["term"]["blocks"].as_array().unwrap().is_empty() {
                let blk = subs[from]["term"]["blocks"][1 + r.below(nb as u64 - 1) as usize].clone();
                subs[to]["term"]["blocks"].as_array_mut().unwrap().push(blk);
            }
        }
    }
    // extern symbols
    let mut ext_json = Vec::new();
    // exotic: the disassembler has no (complete) signature for some imports (no matching data type
    // archive): the parameter list is cut short and/or the return value is missing
    let unknown_sigs = g.exotic && r.chance(30);
    for (name, addr, nparams, has_ret, no_return, var_args) in g.externs.iter() {
        let mut nparams = *nparams;
        let mut has_ret = *has_ret;
        if unknown_sigs && r.chance(35) {
            nparams = r.below(nparams as u64 + 1) as usize;
            if r.chance(40) {
                has_ret = false;
            }
        }
        let mut args = Vec::new();
        for k in 0..nparams {
            if p.stack_args || k >= p.params.len() {
                let slot = if p.stack_args { p.ptr * (k as u64 + 1) } else { p.ptr * (k - p.params.len()) as u64 + if p.x86 { p.ptr } else { 0 } };
                args.push(json!({"location": {"mnemonic": "LOAD", "input0": {"address": format!("{slot:08x}"), "size": p.ptr, "is_virtual": false}}, "intent": "INPUT"}));
            } else {
                args.push(json!({"var": {"name": p.params[k], "size": p.ptr, "is_virtual": false}, "intent": "INPUT"}));
            }
        }
        if has_ret {
            args.push(json!({"var": {"name": p.ret, "size": p.ptr, "is_virtual": false}, "intent": "OUTPUT"}));
        }
        ext_json.push(json!({
            "tid": tid(format!("sub_{}", hex(*addr)), &hex(*addr)),
            "addresses": [hex(*addr)],
            "name": name,
            "calling_convention": p.cconv,
            "arguments": args,
            "no_return": no_return,
            "has_var_args": var_args,
        }));
    }
    r.shuffle(&mut ext_json); // HashMap.values() order in the extractor
    let mut entry_points = vec![tid(format!("sub_{}", hex(func_addrs[0])), &hex(func_addrs[0]))];
    if r.chance(30) {
        let a = text + 0x80;
        entry_points.push(tid(format!("sub_{}", hex(a)), &hex(a)));
    }
    let dt = json!({"char_size": 1, "double_size": 8, "float_size": 4, "integer_size": p.int_size, "long_double_size": if p.x86 { 16 } else { 8 },
        "long_long_size": 8, "long_size": p.ptr, "pointer_size": p.ptr, "short_size": 2});
    let project = json!({
        "program": {
            "tid": tid(format!("prog_{}", hex(image_base)), &hex(image_base)),
            "term": {"subs": subs, "extern_symbols": ext_json, "entry_points": entry_points, "image_base": format!("{image_base:x}")},
        },
        "stack_pointer_register": {"name": p.sp, "size": p.ptr, "is_virtual": false},
        "register_properties": register_properties(p),
        "cpu_architecture": p.name,
        "register_calling_convention": calling_conventions(p, &mut r),
        "datatype_properties": dt,
    });
    Workload { pcode: project, elf: elf_bytes, meta: g.meta }
}
