#!/bin/bash
# Apply a patch to /repo, run the given quick checks against it, undo the patch.
# Evidence files of /verif are preserved; replay files produced go to <outdir>.
# usage: try_patch.sh <patch.diff> <outdir> <check> [<check> ...]
set -u
patch="$(realpath "$1")"; out="$2"; shift 2
mkdir -p "$out"
cd /verif
[ -z "$(git -C /repo status --porcelain --untracked-files=no)" ] || { echo "/repo is not clean"; exit 2; }
rm -rf /tmp/try_patch_ev && cp -r /verif/evidence /tmp/try_patch_ev
mv /verif/replays /tmp/try_patch_replays_keep 2>/dev/null; mkdir -p /verif/replays
git -C /repo apply "$patch" || { echo "patch does not apply"; mv /tmp/try_patch_replays_keep /verif/replays 2>/dev/null; exit 2; }
for c in "$@"; do
  VERIF_C25_ENGINE_B="${VERIF_C25_ENGINE_B:-0}" timeout 3000 ./verif "$c" --tier quick > "$out/$c.log" 2>&1
  echo "$c exit=$? $(grep -c '^VIOLATION' "$out/$c.log") violation lines; $(grep '^violation class' "$out/$c.log" | head -3 | tr '\n' ';')"
done
git -C /repo checkout -- .
git -C /repo status --porcelain --untracked-files=no
rm -rf "$out/replays"; mv /verif/replays "$out/replays"; mv /tmp/try_patch_replays_keep /verif/replays 2>/dev/null || mkdir -p /verif/replays
rm -rf /verif/evidence && mv /tmp/try_patch_ev /verif/evidence
