//! Evidence files (`/verif/evidence/<id>.json`, schema `/root/.vp/EVIDENCE.schema.json`).

use serde_json::{json, Value};

pub struct Evidence {
    pub property_id: String,
    pub tier: String,
    pub seed: u64,
    pub evaluations: u64,
    pub distinct_nontrivial: u64,
    pub rule: String,
    pub samples: Vec<Value>,
    pub extra: serde_json::Map<String, Value>,
    pub assumptions: Vec<String>,
    pub wall_s: f64,
    pub violations: u64,
}

impl Evidence {
    pub fn to_json(&self) -> Value {
        let mut coverage = serde_json::Map::new();
        coverage.insert("evaluations".into(), json!(self.evaluations));
        coverage.insert("distinct_nontrivial".into(), json!(self.distinct_nontrivial));
        coverage.insert("rule".into(), json!(self.rule));
        coverage.insert("samples".into(), json!(self.samples));
        for (k, v) in self.extra.iter() {
            coverage.insert(k.clone(), v.clone());
        }
        json!({
            "property_id": self.property_id,
            "tier": self.tier,
            "seed": self.seed,
            "level": "exploration",
            "coverage": coverage,
            "assumptions": self.assumptions,
            "wall_s": self.wall_s,
            "violations": self.violations,
        })
    }

    pub fn write(&self, path: &str) -> std::io::Result<()> {
        if let Some(dir) = std::path::Path::new(path).parent() {
            std::fs::create_dir_all(dir)?;
        }
        let tmp = format!("{path}.tmp");
        std::fs::write(&tmp, serde_json::to_string_pretty(&self.to_json()).unwrap())?;
        std::fs::rename(tmp, path)
    }
}
