#!/usr/bin/env python3
"""C25 engine B: the C25 scenarios on the UNMODIFIED library (real crossbeam-channel, real std threads)
under Miri's seeded scheduler. Invoked by `verif C25` after engine A; merges its coverage into
evidence/C25.json. A failing (scenario, Miri seed) pair is written as a replay file and replays exactly
(`-Zmiri-seed` fixes the schedule)."""
import json, os, re, subprocess, sys, time

VERIF = os.environ.get("VERIF_DIR", "/verif")
SEED = int(os.environ.get("VERIF_SEED", "1"))
MANIFEST = f"{VERIF}/miri/Cargo.toml"
ENV = dict(os.environ, CARGO_TARGET_DIR=f"{VERIF}/miri/target", CARGO_NET_OFFLINE="true")

def miri(flags, args, timeout=7200):
    env = dict(ENV, MIRIFLAGS=flags)  # isolation stays on: no host randomness, a seed replays exactly
    p = subprocess.run(["cargo", "+nightly", "miri", "run", "--offline", "-q", "--manifest-path", MANIFEST, "--"] + args,
                       env=env, capture_output=True, text=True, timeout=timeout)
    return p.returncode, p.stdout, p.stderr

def replay(path):
    """Re-executes the recorded prefix of the scenario stream under the recorded Miri seed: with
    isolation on, Miri's scheduler is a function of the seed and of the program's execution, so the
    scenarios before the failing one have to run again for the schedule to be the same."""
    rp = json.load(open(path))
    lo, hi = rp["range"]
    code, out, err = miri(f"-Zmiri-seed={rp['miri_seed']} -Zmiri-preemption-rate={rp['preemption_rate']}", [str(rp["verif_seed"]), str(lo), str(hi)])
    print(out.strip()[:3000])
    if "C25B-VIOLATION" in out or code != 0:
        if "C25B-VIOLATION" not in out:
            print(err[-2000:])
        print(f"VIOLATION property=C25 replay={path}")
        return 1
    print("replay: property holds on these scenarios under this Miri seed")
    return 0

def main():
    if len(sys.argv) >= 3 and sys.argv[1] == "replay":
        sys.exit(replay(sys.argv[2]))
    tier = sys.argv[1] if len(sys.argv) > 1 else "quick"
    t0 = time.time()
    # (scenario range, miri seeds, preemption rate)
    if tier == "thorough":
        plan = [((k * 16, k * 16 + 16), (0, 32), [0.05, 0.2, 0.5][k % 3]) for k in range(16)]
    else:
        plan = [((k * 8, k * 8 + 8), (0, 8), [0.1, 0.3][k % 2]) for k in range(4)]
    pairs = 0
    digests = set()
    violations = []
    for (lo, hi), (s0, s1), rate in plan:
        code, out, err = miri(f"-Zmiri-many-seeds={s0}..{s1} -Zmiri-preemption-rate={rate}", [str(SEED), str(lo), str(hi)])
        oks = re.findall(r"C25B-OK from=\d+ to=\d+ history_digest=([0-9a-f]+)", out)
        pairs += len(oks) * (hi - lo)
        digests.update((lo, d) for d in oks)
        if code != 0 or "C25B-VIOLATION" in out:
            if "C25B-VIOLATION" not in out and "error: unsupported operation" in err:
                print("HARNESS ERROR: Miri cannot execute the scenario:\n" + err[-1500:]); sys.exit(2)
            # find the failing seed (many-seeds stops at the first failure)
            found = False
            for s in range(s0, s1):
                c, o, e = miri(f"-Zmiri-seed={s} -Zmiri-preemption-rate={rate}", [str(SEED), str(lo), str(hi)])
                m = re.search(r"C25B-VIOLATION index=(\d+) ([^\n]*)\n(?:.*\n)*? scenario (\{.*\})", o)
                if m:
                    sc = json.loads(m.group(3))
                    idx = int(m.group(1))
                    # exact replay = the same prefix of the stream under the same seed; run it twice
                    c2, o2, _ = miri(f"-Zmiri-seed={s} -Zmiri-preemption-rate={rate}", [str(SEED), str(lo), str(idx + 1)])
                    if "C25B-VIOLATION" not in o2:
                        print("HARNESS ERROR: engine B violation does not replay from its recorded prefix and seed"); sys.exit(2)
                    violations.append({"index": idx, "detail": m.group(2), "scenario": sc, "miri_seed": s, "preemption_rate": rate, "range": [lo, idx + 1]})
                    found = True
                    break
                if c != 0 and "C25B" not in o:
                    violations.append({"index": -1, "detail": "abnormal end under Miri (panic, deadlock or undefined behaviour): " + e.strip().splitlines()[-1][:300] if e.strip() else "abnormal end",
                                       "scenario": None, "miri_seed": s, "preemption_rate": rate, "range": [lo, hi]})
                    found = True
                    break
            if not found:
                print("HARNESS ERROR: engine B failure did not reproduce per seed:\n" + out[-800:] + err[-800:]); sys.exit(2)
            break
    lines = []
    os.makedirs(f"{VERIF}/replays/C25", exist_ok=True)
    for v in violations:
        path = f"{VERIF}/replays/C25/b_{v['index']}_{v['miri_seed']}.json"
        json.dump({"property": "C25", "engine": "B (Miri: real crossbeam-channel + real std threads)", "scenario": v["scenario"], "miri_seed": v["miri_seed"],
                   "preemption_rate": v["preemption_rate"], "range": v["range"], "verif_seed": SEED, "violation": {"class": v["detail"].split(":")[0], "detail": v["detail"]}, "found_by": {"VERIF_SEED": SEED, "run_index": v["index"]}}, open(path, "w"), indent=1)
        lines.append(f"VIOLATION property=C25 replay={path}")
    # merge into the evidence written by engine A
    evp = f"{VERIF}/evidence/C25.json"
    try:
        ev = json.load(open(evp))
    except Exception:
        print("HARNESS ERROR: engine A did not write evidence"); sys.exit(2)
    cov = ev["coverage"]
    cov["engine_b"] = {"what": "same scenario stream and oracle on the unmodified library: real crossbeam-channel and real std::thread interpreted by Miri; the schedule is Miri's seeded scheduler (-Zmiri-seed, -Zmiri-preemption-rate)",
                       "scenario_seed_pairs": pairs, "distinct_history_digests": len(digests), "plan": [{"scenarios": list(p[0]), "miri_seeds": list(p[1]), "preemption_rate": p[2]} for p in plan],
                       "violations": len(violations), "wall_s": round(time.time() - t0, 1)}
    cov["evaluations"] = cov.get("engine_a_runs", cov["evaluations"]) + pairs
    ev["violations"] = ev.get("violations", 0) + len(violations)
    ev["wall_s"] = ev["wall_s"] + time.time() - t0
    json.dump(ev, open(evp, "w"), indent=1)
    print(f"C25 engine B: {pairs} (scenario, Miri seed) pairs, {len(digests)} distinct history digests, {time.time()-t0:.1f}s")
    if lines:
        print("\n".join(lines)); sys.exit(1)
    print("C25 engine B: property held on everything explored")

main()
