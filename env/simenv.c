/* libsimenv.so — the environment seam of the simulated CLI (LD_PRELOAD).
 *
 *  S1 entropy : getrandom(2) (the weak symbol Rust's std uses to key RandomState) is served from
 *               splitmix64 seeded by SIM_ENTROPY, so HashMap/HashSet iteration order in every
 *               thread of the process is a pure function of SIM_ENTROPY.
 *  S2 syscalls: read(2)/write(2) (never on fd 2) may return short or fail with EINTR before any
 *               byte is transferred — behaviour POSIX allows on a healthy file.
 *               SIM_IO = "<seed>:<read_short%>:<read_eintr%>:<write_short%>:<write_eintr%>"  (seeded), or
 *               SIM_IO = "list:<call>:<kind>:<len>,..." (explicit, for minimised replays), where
 *               <call> is the index of the read+write call in the process, kind is one of
 *               rs (read short) re (read EINTR) ws (write short) we (write EINTR).
 *  SIM_STATS  : file that receives counters and the list of injected events at exit.
 *
 *  clock        : the SIM_IO value may carry the suffix ";clock=<seed>": clock_gettime / gettimeofday /
 *               time then read a simulated clock that starts at a fixed instant and jumps forward by
 *               seeded amounts (up to three hours per reading): clock jumps as a fault kind. Without
 *               the suffix the real clock is passed through (the analyzer itself never reads it).
 * No real randomness: a run is a function of (program, inputs, SIM_*).
 */
#define _GNU_SOURCE
#include <errno.h>
#include <stddef.h>
#include <stdint.h>
#include <stdio.h>
#include <stdlib.h>
#include <string.h>
#include <sys/syscall.h>
#include <sys/time.h>
#include <sys/types.h>
#include <time.h>
#include <unistd.h>

#define MAX_EVENTS 4096
struct ev { unsigned long call; char kind[3]; unsigned long len; };

static uint64_t ent_state, io_state;
static int inited, io_mode; /* 0 off, 1 seeded, 2 explicit list */
static unsigned rate_rs, rate_re, rate_ws, rate_we;
static unsigned long n_rand, n_read, n_write, n_rs, n_re, n_ws, n_we, n_call;
static int clock_mode; static uint64_t clock_state, clock_ns; static unsigned long n_clock, n_jump;
static struct ev injected[MAX_EVENTS]; static unsigned long n_injected;
static struct ev planned[MAX_EVENTS]; static unsigned long n_planned;

static uint64_t nx(uint64_t *s) {
  *s += 0x9E3779B97F4A7C15ULL; uint64_t z = *s;
  z = (z ^ (z >> 30)) * 0xBF58476D1CE4E5B9ULL; z = (z ^ (z >> 27)) * 0x94D049BB133111EBULL;
  return z ^ (z >> 31);
}

static void configure(const char *entropy, const char *e) {
  ent_state = entropy ? strtoull(entropy, 0, 10) : 0;
  n_rand = n_read = n_write = n_rs = n_re = n_ws = n_we = n_call = 0;
  n_injected = n_planned = 0;
  io_mode = 0;
  clock_mode = 0; n_clock = n_jump = 0;
  static char iobuf[1 << 16];
  if (e) {
    const char *c = strstr(e, ";clock=");
    if (c) {
      clock_mode = 1; clock_state = strtoull(c + 7, 0, 10); clock_ns = 1700000000ULL * 1000000000ULL;
      size_t n = (size_t)(c - e); if (n >= sizeof iobuf) n = sizeof iobuf - 1;
      memcpy(iobuf, e, n); iobuf[n] = 0; e = iobuf;
    }
  }
  if (!e || !*e || !strcmp(e, "0")) { io_mode = 0; return; }
  if (!strncmp(e, "list:", 5)) {
    io_mode = 2;
    const char *p = e + 5;
    while (*p && n_planned < MAX_EVENTS) {
      char *end; unsigned long call = strtoul(p, &end, 10);
      if (*end != ':') break;
      p = end + 1;
      struct ev *v = &planned[n_planned];
      v->call = call; v->kind[0] = p[0]; v->kind[1] = p[1]; v->kind[2] = 0;
      if (!p[0] || !p[1] || p[2] != ':') break;
      p += 3;
      v->len = strtoul(p, &end, 10);
      n_planned++;
      p = end; if (*p == ',') p++;
    }
    return;
  }
  io_mode = 1;
  unsigned long long seed = 0; unsigned a = 15, b = 8, c = 15, d = 8;
  sscanf(e, "%llu:%u:%u:%u:%u", &seed, &a, &b, &c, &d);
  io_state = seed; rate_rs = a; rate_re = b; rate_ws = c; rate_we = d;
}

static void init(void) {
  if (inited) return;
  inited = 1;
  configure(getenv("SIM_ENTROPY"), getenv("SIM_IO"));
}

/* Server mode of the simulated CLI: one process serves many runs; every run starts from a
 * freshly configured environment (same state as a fresh process with these SIM_* values). */
static int paused;
void simenv_reset(const char *entropy, const char *io) { inited = 1; paused = 0; configure(entropy, io); }
/* Between two runs the server does its own bookkeeping I/O: no faults, no accounting. */
void simenv_pause(void) { paused = 1; }

static int stats_json(char *buf, size_t cap) {
  int n = snprintf(buf, cap, "{\"getrandom\":%lu,\"read\":%lu,\"read_short\":%lu,\"read_eintr\":%lu,\"write\":%lu,\"write_short\":%lu,\"write_eintr\":%lu,\"injected\":\"",
          n_rand, n_read, n_rs, n_re, n_write, n_ws, n_we);
  unsigned long m = n_injected < MAX_EVENTS ? n_injected : MAX_EVENTS;
  for (unsigned long i = 0; i < m && (size_t)n + 64 < cap; i++)
    n += snprintf(buf + n, cap - n, "%s%lu:%s:%lu", i ? "," : "", injected[i].call, injected[i].kind, injected[i].len);
  n += snprintf(buf + n, cap - n, "\",\"injected_total\":%lu,\"clock_reads\":%lu,\"clock_jumps\":%lu}", n_injected, n_clock, n_jump);
  return n;
}
int simenv_stats(char *buf, size_t cap) { return stats_json(buf, cap); }

static void note(unsigned long call, const char *kind, unsigned long len) {
  if (n_injected < MAX_EVENTS) {
    injected[n_injected].call = call; strcpy(injected[n_injected].kind, kind); injected[n_injected].len = len;
  }
  n_injected++;
}

/* decide the fault for this call: 0 none, 1 short (len in *out_len), 2 EINTR */
static int decide(int is_write, size_t len, size_t *out_len) {
  unsigned long call = n_call++;
  if (io_mode == 0 || len == 0) return 0;
  if (io_mode == 2) {
    for (unsigned long i = 0; i < n_planned; i++) {
      if (planned[i].call != call) continue;
      if (planned[i].kind[0] != (is_write ? 'w' : 'r')) return 0;
      if (planned[i].kind[1] == 'e') { note(call, planned[i].kind, 0); return 2; }
      if (len > 1) { size_t l = planned[i].len; if (l < 1) l = 1; if (l >= len) l = len - 1; *out_len = l; note(call, planned[i].kind, l); return 1; }
      return 0;
    }
    return 0;
  }
  unsigned r = (unsigned)(nx(&io_state) % 100);
  unsigned re = is_write ? rate_we : rate_re, rs = is_write ? rate_ws : rate_rs;
  if (r < re) { note(call, is_write ? "we" : "re", 0); return 2; }
  if (r < re + rs && len > 1) {
    size_t cap = len - 1 < 64 ? len - 1 : 64;
    size_t l = 1 + (size_t)(nx(&io_state) % cap);
    *out_len = l; note(call, is_write ? "ws" : "rs", l); return 1;
  }
  return 0;
}

/* simulated clock: every reading advances by 1 us, and with probability 1/2 by a jump of up to 3 h */
static uint64_t sim_now_ns(void) {
  n_clock++;
  clock_ns += 1000;
  if (nx(&clock_state) & 1) { clock_ns += nx(&clock_state) % (3ULL * 3600 * 1000000000ULL); n_jump++; }
  return clock_ns;
}
int clock_gettime(clockid_t id, struct timespec *ts) {
  init();
  if (!clock_mode || paused) return (int)syscall(SYS_clock_gettime, id, ts);
  uint64_t t = sim_now_ns();
  ts->tv_sec = (time_t)(t / 1000000000ULL); ts->tv_nsec = (long)(t % 1000000000ULL);
  return 0;
}
int gettimeofday(struct timeval *tv, void *tz) {
  init();
  if (!clock_mode || paused) return (int)syscall(SYS_gettimeofday, tv, tz);
  uint64_t t = sim_now_ns();
  if (tv) { tv->tv_sec = (time_t)(t / 1000000000ULL); tv->tv_usec = (suseconds_t)((t % 1000000000ULL) / 1000); }
  return 0;
}
time_t time(time_t *out) {
  init();
  time_t r;
  if (!clock_mode || paused) { struct timespec ts; syscall(SYS_clock_gettime, CLOCK_REALTIME, &ts); r = ts.tv_sec; }
  else r = (time_t)(sim_now_ns() / 1000000000ULL);
  if (out) *out = r;
  return r;
}

ssize_t getrandom(void *buf, size_t len, unsigned int flags) {
  (void)flags; init(); n_rand++;
  unsigned char *p = buf;
  for (size_t i = 0; i < len; i += 8) {
    uint64_t r = nx(&ent_state);
    for (int k = 0; k < 8 && i + k < len; k++) p[i + k] = (unsigned char)(r >> (8 * k));
  }
  return (ssize_t)len;
}

ssize_t read(int fd, void *buf, size_t len) {
  init();
  if (paused) return syscall(SYS_read, fd, buf, len);
  n_read++;
  size_t l = len;
  int f = decide(0, len, &l);
  if (f == 2) { n_re++; errno = EINTR; return -1; }
  if (f == 1) n_rs++;
  return syscall(SYS_read, fd, buf, l);
}

ssize_t write(int fd, const void *buf, size_t len) {
  init();
  if (paused) return syscall(SYS_write, fd, buf, len);
  n_write++;
  if (fd == 2) return syscall(SYS_write, fd, buf, len);
  size_t l = len;
  int f = decide(1, len, &l);
  if (f == 2) { n_we++; errno = EINTR; return -1; }
  if (f == 1) n_ws++;
  return syscall(SYS_write, fd, buf, l);
}

__attribute__((destructor)) static void fin(void) {
  const char *e = getenv("SIM_STATS");
  if (!e) return;
  static char buf[1 << 17];
  paused = 1;
  int n = stats_json(buf, sizeof buf);
  FILE *f = fopen(e, "w");
  if (!f) return;
  fwrite(buf, 1, (size_t)n, f); fputc('\n', f);
  fclose(f);
}
