//! C07 — the worklist fixpoint solver computes the least solution for any order.
//!
//! Simulated system: the real `fixpoint::Computation` (tier 1) and the real forward
//! interprocedural wrapper + worklist constructors on real CFGs (tier 2, module `tier2`).
//! Owned by the simulator: the transfer system (a `Context` impl whose callbacks count and
//! enforce the step budget), the node-priority schedule, pre-emption points
//! (`compute_with_max_steps`), and values injected between slices.
//! Oracle: an independent Kleene-iteration reference solver.

mod tier2;
mod tier3;

use cwe_checker_lib::analysis::fixpoint::{Computation, Context};
use petgraph::graph::{DiGraph, EdgeIndex, NodeIndex};
use serde::{Deserialize, Serialize};
use simcommon::{derive, Rng};
use std::cell::{Cell, RefCell};
use std::collections::HashSet;
use std::panic::{catch_unwind, AssertUnwindSafe};

// ------------------------------------------------------------------------------------------------
// scenario
// ------------------------------------------------------------------------------------------------

#[derive(Clone, Debug, Serialize, Deserialize, PartialEq, Eq, Hash)]
pub struct EdgeFn {
    pub src: u8,
    pub dst: u8,
    /// blocking guard: if non-zero and `v & guard == 0` nothing flows
    pub guard: u8,
    pub keep: u8,
    pub gen: u8,
    /// conditional generation: if `v & a == a` then `b` is added (non-distributive)
    pub a: u8,
    pub b: u8,
}

impl EdgeFn {
    #[inline]
    pub fn apply(&self, v: u8) -> Option<u8> {
        if self.guard != 0 && v & self.guard == 0 {
            None
        } else {
            Some((v & self.keep) | self.gen | if v & self.a == self.a { self.b } else { 0 })
        }
    }
}

#[derive(Clone, Debug, Serialize, Deserialize, PartialEq, Eq, Hash)]
pub enum Order {
    /// `Computation::new`: the solver's own (Kosaraju) order.
    Default,
    /// `Computation::from_node_priority_list` with this permutation of all nodes.
    Perm(Vec<u8>),
}

#[derive(Clone, Debug, Serialize, Deserialize, PartialEq, Eq, Hash)]
pub enum Step {
    /// `compute_with_max_steps(bound)` — a pre-emptible slice.
    Bounded(u64),
    /// `set_node_value(node, current ∨ extra)` — a value injected from outside between slices.
    Inject { node: u8, extra: u8 },
    /// `node_values_mut()` and or-ing `extra` into every present value.
    InjectAll { extra: u8 },
    /// `compute()` — run to completion.
    Full,
    /// `node_values_mut()` and and-ing `keep` into every present value: a caller that *resets* part
    /// of the state between two runs (the function signature analysis edits node values between its
    /// rounds). The solver re-queues every node; the result must be the least closed assignment
    /// above the edited one.
    LowerAll { keep: u8 },
}

#[derive(Clone, Debug, Serialize, Deserialize, PartialEq, Eq, Hash)]
pub struct Scenario {
    pub nodes: u8,
    pub bits: u8,
    pub edges: Vec<EdgeFn>,
    pub default: Option<u8>,
    pub start: Vec<(u8, u8)>,
    pub order: Order,
    pub steps: Vec<Step>,
}

/// FNV-1a over the `Hash` impl: cheap identity of a scenario for distinct counting.
pub struct Fnv(pub u64);
impl std::hash::Hasher for Fnv {
    fn finish(&self) -> u64 {
        simcommon::mix(self.0)
    }
    fn write(&mut self, bytes: &[u8]) {
        for b in bytes {
            self.0 ^= *b as u64;
            self.0 = self.0.wrapping_mul(0x0000_0100_0000_01b3);
        }
    }
}
pub fn hash_of<T: std::hash::Hash>(t: &T) -> u64 {
    use std::hash::Hasher;
    let mut h = Fnv(0xcbf2_9ce4_8422_2325);
    t.hash(&mut h);
    h.finish()
}

// ------------------------------------------------------------------------------------------------
// the simulated transfer system
// ------------------------------------------------------------------------------------------------

struct SimContext {
    graph: DiGraph<(), usize>,
    fns: Vec<EdgeFn>,
    /// evaluations of each edge within the current slice
    edge_calls: RefCell<Vec<u64>>,
    total_calls: Cell<u64>,
    budget: u64,
}

impl Context for SimContext {
    type EdgeLabel = usize;
    type NodeLabel = ();
    type NodeValue = u8;

    fn get_graph(&self) -> &DiGraph<(), usize> {
        &self.graph
    }
    fn merge(&self, a: &u8, b: &u8) -> u8 {
        a | b
    }
    fn update_edge(&self, value: &u8, edge: EdgeIndex) -> Option<u8> {
        let idx = *self.graph.edge_weight(edge).unwrap();
        self.edge_calls.borrow_mut()[idx] += 1;
        let t = self.total_calls.get() + 1;
        self.total_calls.set(t);
        if t > self.budget {
            // unwinds out of `compute*`: the only way to stop a solver that does not terminate
            std::panic::panic_any(BudgetExceeded);
        }
        self.fns[idx].apply(*value)
    }
}

pub struct BudgetExceeded;

/// Independent reference: Kleene iteration over all edges until nothing changes.
/// Returns the least assignment containing `start` closed under all transfers, and the number of
/// rounds that changed something.
fn reference(sc: &Scenario, start: &[Option<u8>]) -> (Vec<Option<u8>>, u32) {
    let mut val = start.to_vec();
    let mut rounds = 0;
    loop {
        let mut changed = false;
        for e in &sc.edges {
            if let Some(v) = val[e.src as usize] {
                if let Some(x) = e.apply(v) {
                    let t = &mut val[e.dst as usize];
                    let new = t.map_or(x, |o| o | x);
                    if *t != Some(new) {
                        *t = Some(new);
                        changed = true;
                    }
                }
            }
        }
        if !changed {
            return (val, rounds);
        }
        rounds += 1;
    }
}

#[derive(Clone, Debug, Serialize, Deserialize, PartialEq, Eq, Hash)]
pub struct Violation {
    pub class: String,
    pub detail: String,
}

fn viol(class: &str, detail: String) -> Violation {
    Violation {
        class: class.to_string(),
        detail,
    }
}

#[derive(Default, Clone, Debug)]
pub struct RunStats {
    pub ref_rounds: u32,
    pub callbacks: u64,
    pub blocked_edge_seen: bool,
    pub bound_hit: bool,
    pub resumed: bool,
    pub injected: bool,
}

/// Execute one scenario against the real solver and check every clause of the oracle.
pub fn run_scenario(sc: &Scenario) -> Result<RunStats, Violation> {
    let n = sc.nodes as usize;
    let mut graph: DiGraph<(), usize> = DiGraph::new();
    for _ in 0..n {
        graph.add_node(());
    }
    for (i, e) in sc.edges.iter().enumerate() {
        graph.add_edge(NodeIndex::new(e.src as usize), NodeIndex::new(e.dst as usize), i);
    }
    let k = sc.bits as u64;
    let budget = (k + 2) * (n as u64 + sc.edges.len() as u64 + 1) * (n as u64 + 1) * (sc.steps.len() as u64 + 2);
    let ctx = SimContext {
        graph,
        fns: sc.edges.clone(),
        edge_calls: RefCell::new(vec![0; sc.edges.len()]),
        total_calls: Cell::new(0),
        budget,
    };
    let mut stats = RunStats::default();

    let mut comp = match &sc.order {
        Order::Default => Computation::new(ctx, sc.default),
        Order::Perm(p) => Computation::from_node_priority_list(
            ctx,
            sc.default,
            p.iter().map(|i| NodeIndex::new(*i as usize)).collect(),
        ),
    };
    // reference start assignment, augmented by every injected value
    let mut start: Vec<Option<u8>> = vec![sc.default; n];
    for (node, v) in &sc.start {
        comp.set_node_value(NodeIndex::new(*node as usize), *v);
        start[*node as usize] = Some(*v);
    }

    let result = catch_unwind(AssertUnwindSafe(|| -> Result<(), Violation> {
        for step in &sc.steps {
            match step {
                Step::Bounded(bound) => {
                    comp.get_context().edge_calls.borrow_mut().iter_mut().for_each(|c| *c = 0);
                    comp.compute_with_max_steps(*bound);
                    // clause 2: no node processed more often than the bound within the slice
                    for (i, c) in comp.get_context().edge_calls.borrow().iter().enumerate() {
                        if *c > *bound {
                            return Err(viol(
                                "step_bound_exceeded",
                                format!("edge {i} (source node {}) evaluated {c} times in a slice with bound {bound}", sc.edges[i].src),
                            ));
                        }
                    }
                    if !comp.has_stabilized() {
                        stats.bound_hit = true;
                    }
                }
                Step::Full => {
                    if !comp.has_stabilized() {
                        stats.resumed = true;
                    }
                    comp.compute();
                    if !comp.has_stabilized() {
                        return Err(viol("not_stabilized_after_compute", "compute() returned with a non-empty worklist".into()));
                    }
                }
                Step::Inject { node, extra } => {
                    let idx = NodeIndex::new(*node as usize);
                    let cur = comp.get_node_value(idx).copied();
                    let new = cur.unwrap_or(0) | extra;
                    comp.set_node_value(idx, new);
                    let s = &mut start[*node as usize];
                    *s = Some(s.unwrap_or(0) | extra);
                    stats.injected = true;
                }
                Step::InjectAll { extra } => {
                    let present: Vec<usize> = (0..n).filter(|i| comp.get_node_value(NodeIndex::new(*i)).is_some()).collect();
                    for v in comp.node_values_mut() {
                        *v |= extra;
                    }
                    for i in present {
                        start[i] = Some(start[i].unwrap_or(0) | extra);
                    }
                    stats.injected = true;
                }
                Step::LowerAll { keep } => {
                    for v in comp.node_values_mut() {
                        *v &= keep;
                    }
                    // from here on the reference starts from the edited assignment
                    for i in 0..n {
                        start[i] = comp.get_node_value(NodeIndex::new(i)).copied();
                    }
                    stats.injected = true;
                }
            }
            // clause 3: "stabilized" is reported only for assignments closed under all transfers
            if comp.has_stabilized() {
                for (i, e) in sc.edges.iter().enumerate() {
                    if let Some(v) = comp.get_node_value(NodeIndex::new(e.src as usize)) {
                        if let Some(x) = e.apply(*v) {
                            let closed = comp
                                .get_node_value(NodeIndex::new(e.dst as usize))
                                .map_or(false, |t| t | x == *t);
                            if !closed {
                                return Err(viol(
                                    "stabilized_but_not_closed",
                                    format!("has_stabilized() but edge {i} ({}->{}) maps {v:#x} to {x:#x} which is not below the target value {:?}", e.src, e.dst, comp.get_node_value(NodeIndex::new(e.dst as usize))),
                                ));
                            }
                        }
                    }
                }
            }
        }
        Ok(())
    }));
    stats.callbacks = comp.get_context().total_calls.get();
    match result {
        Err(payload) => {
            if payload.downcast_ref::<BudgetExceeded>().is_some() {
                return Err(viol("non_termination", format!("more than {budget} edge evaluations")));
            }
            let msg = payload
                .downcast_ref::<String>()
                .cloned()
                .or_else(|| payload.downcast_ref::<&str>().map(|s| s.to_string()))
                .unwrap_or_else(|| "panic".into());
            return Err(viol("panic", msg));
        }
        Ok(Err(v)) => return Err(v),
        Ok(Ok(())) => {}
    }

    // clause 1: after a complete run the result is the least solution
    let (lfp, rounds) = reference(sc, &start);
    stats.ref_rounds = rounds;
    stats.blocked_edge_seen = sc.edges.iter().any(|e| lfp[e.src as usize].map_or(false, |v| e.apply(v).is_none()));
    if comp.has_stabilized() {
        for i in 0..n {
            let got = comp.get_node_value(NodeIndex::new(i)).copied();
            if got != lfp[i] {
                let class = match (got, lfp[i]) {
                    (Some(g), Some(l)) if g | l == l => "below_least_solution",
                    (None, Some(_)) => "below_least_solution",
                    _ => "above_least_solution",
                };
                return Err(viol(class, format!("node {i}: solver {got:?}, least solution {:?}", lfp[i])));
            }
        }
        if comp.node_values().len() != lfp.iter().filter(|v| v.is_some()).count() {
            return Err(viol("above_least_solution", "solver assigns values to more nodes than the least solution".into()));
        }
    } else {
        // not part of the statement, but must hold for a sound bounded run: values stay below the lfp
        for i in 0..n {
            if let Some(g) = comp.get_node_value(NodeIndex::new(i)) {
                match lfp[i] {
                    Some(l) if g | l == l => {}
                    _ => return Err(viol("above_least_solution", format!("node {i}: bounded run produced {g:#x} not below the least solution {:?}", lfp[i]))),
                }
            }
        }
    }
    Ok(stats)
}

// ------------------------------------------------------------------------------------------------
// generator
// ------------------------------------------------------------------------------------------------

pub fn gen_scenario(seed: u64) -> Scenario {
    let mut r = Rng::new(seed);
    let nodes = if r.chance(60) { r.range(1, 6) } else { r.range(7, 12) } as u8;
    let bits = r.range(1, 8) as u8;
    let mask = ((1u16 << bits) - 1) as u8;
    let nedges = match r.below(4) {
        0 => r.below(nodes as u64 + 1),
        1 => r.range(nodes as u64, 2 * nodes as u64),
        _ => r.below(31),
    } as usize;
    let shape = r.below(5);
    let mut edges = Vec::new();
    for i in 0..nedges {
        let (src, dst) = match shape {
            // chain with back edges
            0 => {
                let s = (i as u64 % nodes as u64) as u8;
                if r.chance(70) { (s, (s + 1) % nodes) } else { (s, r.below(nodes as u64) as u8) }
            }
            // mostly forward edges
            1 => {
                let a = r.below(nodes as u64) as u8;
                let b = r.below(nodes as u64) as u8;
                if r.chance(80) { (a.min(b), a.max(b)) } else { (a.max(b), a.min(b)) }
            }
            _ => (r.below(nodes as u64) as u8, r.below(nodes as u64) as u8),
        };
        let sparse = |r: &mut Rng| (r.next() & r.next()) as u8 & mask;
        edges.push(EdgeFn {
            src,
            dst,
            guard: if r.chance(25) { sparse(&mut r) } else { 0 },
            keep: if r.chance(50) { mask } else { r.next() as u8 & mask },
            gen: if r.chance(50) { 0 } else { sparse(&mut r) },
            a: if r.chance(40) { sparse(&mut r) } else { mask },
            b: if r.chance(60) { sparse(&mut r) } else { 0 },
        });
    }
    let default = if r.chance(25) { Some(r.next() as u8 & r.next() as u8 & mask) } else { None };
    let mut start = Vec::new();
    let nstart = if default.is_some() { r.below(3) } else { 1 + r.below(3) };
    for _ in 0..nstart {
        start.push((r.below(nodes as u64) as u8, r.next() as u8 & mask));
    }
    let order = match r.below(10) {
        0 => Order::Default,
        1 => Order::Perm((0..nodes).collect()),
        2 => Order::Perm((0..nodes).rev().collect()),
        _ => {
            let mut p: Vec<u8> = (0..nodes).collect();
            r.shuffle(&mut p);
            Order::Perm(p)
        }
    };
    let mut steps = Vec::new();
    match r.below(4) {
        0 => steps.push(Step::Full),
        1 => steps.push(Step::Bounded(r.range(1, 4))),
        _ => {
            for _ in 0..r.range(1, 5) {
                match r.below(7) {
                    6 => steps.push(Step::LowerAll { keep: (r.next() | r.next()) as u8 & mask }),
                    0 | 1 | 2 => steps.push(Step::Bounded(r.range(1, 3))),
                    3 => steps.push(Step::Inject { node: r.below(nodes as u64) as u8, extra: (r.next() & r.next()) as u8 & mask }),
                    4 => steps.push(Step::InjectAll { extra: (r.next() & r.next() & r.next()) as u8 & mask }),
                    _ => steps.push(Step::Full),
                }
            }
        }
    }
    if r.chance(75) && steps.last() != Some(&Step::Full) {
        steps.push(Step::Full);
    }
    Scenario { nodes, bits, edges, default, start, order, steps }
}

/// All permutations of `0..n` in lexicographic order.
fn permutations(n: u8) -> Vec<Vec<u8>> {
    fn rec(cur: &mut Vec<u8>, used: &mut Vec<bool>, n: u8, out: &mut Vec<Vec<u8>>) {
        if cur.len() == n as usize {
            out.push(cur.clone());
            return;
        }
        for i in 0..n {
            if !used[i as usize] {
                used[i as usize] = true;
                cur.push(i);
                rec(cur, used, n, out);
                cur.pop();
                used[i as usize] = false;
            }
        }
    }
    let mut out = Vec::new();
    rec(&mut Vec::new(), &mut vec![false; n as usize], n, &mut out);
    out
}

/// Self-check of the generator (harness error if violated): every edge function is monotone on
/// the lattice ⊥ < bitsets. Exhaustive over the ≤ 256 values.
fn assert_monotone(sc: &Scenario) {
    let top = 1u16 << sc.bits;
    for e in &sc.edges {
        for v in 0..top {
            let v = v as u8;
            let fv = e.apply(v);
            for bit in 0..sc.bits {
                let w = v | (1 << bit);
                let fw = e.apply(w);
                let ok = match (fv, fw) {
                    (None, _) => true,
                    (Some(_), None) => false,
                    (Some(x), Some(y)) => x | y == y,
                };
                if !ok {
                    eprintln!("HARNESS ERROR: generated non-monotone edge function {e:?} at {v:#x} -> {w:#x}");
                    std::process::exit(2);
                }
            }
        }
    }
}

// ------------------------------------------------------------------------------------------------
// minimisation
// ------------------------------------------------------------------------------------------------

fn fails_same(sc: &Scenario, class: &str) -> bool {
    matches!(run_scenario(sc), Err(v) if v.class == class)
}

fn drop_node(sc: &Scenario, node: u8) -> Option<Scenario> {
    if sc.nodes <= 1 {
        return None;
    }
    let mut s = sc.clone();
    s.nodes -= 1;
    let map = |x: u8| if x > node { x - 1 } else { x };
    s.edges.retain(|e| e.src != node && e.dst != node);
    for e in s.edges.iter_mut() {
        e.src = map(e.src);
        e.dst = map(e.dst);
    }
    s.start.retain(|(n, _)| *n != node);
    for st in s.start.iter_mut() {
        st.0 = map(st.0);
    }
    if let Order::Perm(p) = &mut s.order {
        p.retain(|x| *x != node);
        for x in p.iter_mut() {
            *x = map(*x);
        }
    }
    s.steps.retain(|st| !matches!(st, Step::Inject { node: n, .. } if *n == node));
    for st in s.steps.iter_mut() {
        if let Step::Inject { node: n, .. } = st {
            *n = map(*n);
        }
    }
    Some(s)
}

pub fn minimise(sc: &Scenario, class: &str) -> Scenario {
    let mut cur = sc.clone();
    let mut progress = true;
    while progress {
        progress = false;
        // drop steps
        let mut i = 0;
        while i < cur.steps.len() {
            let mut c = cur.clone();
            c.steps.remove(i);
            if !c.steps.is_empty() && fails_same(&c, class) {
                cur = c;
                progress = true;
            } else {
                i += 1;
            }
        }
        // drop edges
        let mut i = 0;
        while i < cur.edges.len() {
            let mut c = cur.clone();
            c.edges.remove(i);
            if fails_same(&c, class) {
                cur = c;
                progress = true;
            } else {
                i += 1;
            }
        }
        // drop nodes
        let mut node = 0;
        while node < cur.nodes {
            match drop_node(&cur, node) {
                Some(c) if fails_same(&c, class) => {
                    cur = c;
                    progress = true;
                }
                _ => node += 1,
            }
        }
        // drop start values / default
        let mut i = 0;
        while i < cur.start.len() {
            let mut c = cur.clone();
            c.start.remove(i);
            if fails_same(&c, class) {
                cur = c;
                progress = true;
            } else {
                i += 1;
            }
        }
        if cur.default.is_some() {
            let mut c = cur.clone();
            c.default = None;
            if fails_same(&c, class) {
                cur = c;
                progress = true;
            }
        }
        // simplify edge functions
        for i in 0..cur.edges.len() {
            let mask = ((1u16 << cur.bits) - 1) as u8;
            let cands: Vec<Box<dyn Fn(&mut EdgeFn)>> = vec![
                Box::new(|e| e.guard = 0),
                Box::new(|e| e.gen = 0),
                Box::new(|e| e.b = 0),
                Box::new(move |e| e.keep = mask),
                Box::new(move |e| e.a = mask),
            ];
            for f in cands {
                let mut c = cur.clone();
                f(&mut c.edges[i]);
                if c != cur && fails_same(&c, class) {
                    cur = c;
                    progress = true;
                }
            }
        }
        // permutation towards identity
        if let Order::Perm(p) = &cur.order {
            let ident: Vec<u8> = (0..cur.nodes).collect();
            if *p != ident {
                let mut c = cur.clone();
                c.order = Order::Perm(ident);
                if fails_same(&c, class) {
                    cur = c;
                    progress = true;
                } else {
                    // bubble one inversion at a time
                    let mut p = p.clone();
                    for i in 0..p.len().saturating_sub(1) {
                        if p[i] > p[i + 1] {
                            p.swap(i, i + 1);
                            let mut c = cur.clone();
                            c.order = Order::Perm(p.clone());
                            if fails_same(&c, class) {
                                cur = c;
                                progress = true;
                            } else {
                                p.swap(i, i + 1);
                            }
                        }
                    }
                }
            }
        }
        // shrink bounds
        for i in 0..cur.steps.len() {
            if let Step::Bounded(b) = cur.steps[i] {
                if b > 1 {
                    let mut c = cur.clone();
                    c.steps[i] = Step::Bounded(1);
                    if fails_same(&c, class) {
                        cur = c;
                        progress = true;
                    }
                }
            }
        }
    }
    cur
}

// ------------------------------------------------------------------------------------------------
// campaign
// ------------------------------------------------------------------------------------------------

#[derive(Serialize, Deserialize)]
pub struct Replay {
    pub property: String,
    pub tier1: Option<Scenario>,
    pub tier2: Option<tier2::Scenario2>,
    pub violation: Violation,
    pub found_by: serde_json::Value,
}

#[derive(Default)]
struct WorkerOut {
    evaluations: u64,
    distinct: HashSet<u64>,
    nontrivial_distinct: HashSet<u64>,
    violations: Vec<(u64, Scenario, Violation)>,
    exhaustive_systems: u64,
    exhaustive_orders: u64,
    callbacks: u64,
    reach: [u64; 8],
    samples: Vec<(u64, Scenario, RunStats)>,
}

const REACH_NAMES: [&str; 8] = [
    "blocking_edge_blocks_at_solution",
    "bound_hit_left_worklist_nonempty",
    "resumed_after_preemption",
    "value_injected_between_slices",
    "default_value_start",
    "solver_default_order",
    "reference_needed_3_or_more_rounds",
    "all_permutations_enumerated",
];

fn account(out: &mut WorkerOut, idx: u64, sc: &Scenario, res: Result<RunStats, Violation>, sample_mod: u64) {
    out.evaluations += 1;
    let h = hash_of(sc);
    // exact distinct counting on a 1/sample_mod slice of the hash space (conservative count)
    let counted = h % sample_mod == 0;
    if counted {
        out.distinct.insert(h);
    }
    match res {
        Ok(st) => {
            out.callbacks += st.callbacks;
            if st.blocked_edge_seen { out.reach[0] += 1; }
            if st.bound_hit { out.reach[1] += 1; }
            if st.resumed { out.reach[2] += 1; }
            if st.injected { out.reach[3] += 1; }
            if sc.default.is_some() { out.reach[4] += 1; }
            if sc.order == Order::Default { out.reach[5] += 1; }
            if st.ref_rounds >= 3 {
                out.reach[6] += 1;
                if counted {
                    out.nontrivial_distinct.insert(h);
                }
            }
            if out.samples.len() < 3 && st.ref_rounds >= 3 {
                out.samples.push((idx, sc.clone(), st));
            }
        }
        Err(v) => {
            if out.violations.len() < 64 {
                out.violations.push((idx, sc.clone(), v));
            }
        }
    }
}

fn worker(seed: u64, from: u64, to: u64, stride: u64, offset: u64, exhaustive_every: u64, sample_mod: u64) -> WorkerOut {
    let mut out = WorkerOut::default();
    let mut i = from + offset;
    while i < to {
        let sc = gen_scenario(derive(seed, "C07.t1", i, 0));
        assert_monotone(&sc);
        let res = run_scenario(&sc);
        account(&mut out, i, &sc, res, sample_mod);
        // schedule dimension made exhaustive: every node priority permutation for n <= 6
        if sc.nodes <= 6 && i % exhaustive_every == 0 {
            out.exhaustive_systems += 1;
            out.reach[7] += 1;
            for p in permutations(sc.nodes) {
                let mut s2 = sc.clone();
                s2.order = Order::Perm(p);
                let res = run_scenario(&s2);
                out.exhaustive_orders += 1;
                account(&mut out, i, &s2, res, sample_mod);
            }
        }
        i += stride;
    }
    out
}

fn silence_panics() {
    std::panic::set_hook(Box::new(|_| {}));
}

fn write_replay(dir: &str, name: &str, rp: &Replay) -> String {
    std::fs::create_dir_all(dir).unwrap();
    let path = format!("{dir}/{name}.json");
    std::fs::write(&path, serde_json::to_string_pretty(rp).unwrap()).unwrap();
    path
}

fn replay_file(path: &str) -> i32 {
    let text = std::fs::read_to_string(path).expect("cannot read replay file");
    let rp: Replay = serde_json::from_str(&text).expect("cannot parse replay file");
    let res = if let Some(sc) = &rp.tier1 {
        run_scenario(sc).map(|_| ())
    } else if let Some(sc) = &rp.tier2 {
        tier2::run_scenario2(sc).map(|_| ())
    } else {
        eprintln!("replay file holds no scenario");
        return 2;
    };
    match res {
        Err(v) => {
            println!("replayed: class={} detail={}", v.class, v.detail);
            if v.class == rp.violation.class {
                println!("VIOLATION property=C07 replay={path}");
                1
            } else {
                println!("replay produced a different violation class than recorded ({})", rp.violation.class);
                1
            }
        }
        Ok(()) => {
            println!("replay: property holds on this scenario (recorded violation: {})", rp.violation.class);
            0
        }
    }
}

fn main() {
    let args: Vec<String> = std::env::args().collect();
    silence_panics();
    if args.len() >= 3 && args[1] == "replay" {
        std::process::exit(replay_file(&args[2]));
    }
    let tier = args.iter().position(|a| a == "--tier").and_then(|i| args.get(i + 1)).cloned().unwrap_or_else(|| "quick".into());
    let verif_dir = std::env::var("VERIF_DIR").unwrap_or_else(|_| "/verif".into());
    let threads: u64 = std::env::var("VERIF_THREADS").ok().and_then(|s| s.parse().ok()).unwrap_or(16);
    let arg_num = |name: &str| args.iter().position(|a| a == name).and_then(|i| args.get(i + 1)).and_then(|s| s.parse::<u64>().ok());
    let (mut runs1, mut runs2, exhaustive_every, sample_mod) = if tier == "thorough" {
        (200_000_000u64, 4_000_000u64, 40u64, 64u64)
    } else {
        (1_000_000u64, 20_000u64, 40u64, 1u64)
    };
    if let Some(n) = arg_num("--runs1") { runs1 = n; }
    if let Some(n) = arg_num("--runs2") { runs2 = n; }
    let dump = args.iter().any(|a| a == "--dump-log");
    let seed = simcommon::verif_seed();
    let t0 = std::time::Instant::now();
    println!("C07 tier={tier} VERIF_SEED={seed} tier1_runs={runs1} tier2_runs={runs2} threads={threads}");

    if dump {
        // determinism self-test support: print a digest per run index
        for i in 0..runs1.min(200_000) {
            let sc = gen_scenario(derive(seed, "C07.t1", i, 0));
            let r = run_scenario(&sc);
            println!("t1 {i} {:016x} {:?}", hash_of(&sc), r.map(|s| (s.callbacks, s.ref_rounds)).map_err(|v| v.class));
        }
        for i in 0..runs2.min(5_000) {
            let sc = tier2::gen_scenario2(derive(seed, "C07.t2", i, 0));
            let r = tier2::run_scenario2(&sc);
            println!("t2 {i} {:016x} {:?}", hash_of(&sc), r.map(|s| (s.callbacks, s.ref_rounds)).map_err(|v| v.class));
        }
        return;
    }

    // ---- tier 1 ----
    let outs: Vec<WorkerOut> = std::thread::scope(|s| {
        let hs: Vec<_> = (0..threads)
            .map(|t| s.spawn(move || { worker(seed, 0, runs1, threads, t, exhaustive_every, sample_mod) }))
            .collect();
        hs.into_iter().map(|h| h.join().unwrap()).collect()
    });
    let mut total = WorkerOut::default();
    for o in outs {
        total.evaluations += o.evaluations;
        total.distinct.extend(o.distinct);
        total.nontrivial_distinct.extend(o.nontrivial_distinct);
        total.violations.extend(o.violations);
        total.exhaustive_systems += o.exhaustive_systems;
        total.exhaustive_orders += o.exhaustive_orders;
        total.callbacks += o.callbacks;
        for k in 0..8 { total.reach[k] += o.reach[k]; }
        total.samples.extend(o.samples);
    }
    total.samples.sort_by_key(|s| s.0);
    total.samples.truncate(3);
    total.violations.sort_by_key(|v| v.0);
    let t1_wall = t0.elapsed().as_secs_f64();

    // ---- tier 2 ----
    let t2 = tier2::campaign(seed, runs2, threads);
    let wall = t0.elapsed().as_secs_f64();

    // ---- report ----
    let replay_dir = format!("{verif_dir}/replays/C07");
    let mut violation_lines = Vec::new();
    let mut seen_classes = HashSet::new();
    for (idx, sc, v) in total.violations.iter() {
        if !seen_classes.insert(v.class.clone()) || seen_classes.len() > 4 {
            continue;
        }
        let min = minimise(sc, &v.class);
        let v2 = run_scenario(&min).err().unwrap_or_else(|| v.clone());
        // replay equality: the minimised scenario must fail again with the same class
        if !fails_same(&min, &v.class) {
            eprintln!("HARNESS ERROR: minimised scenario does not reproduce {}", v.class);
            std::process::exit(2);
        }
        let rp = Replay {
            property: "C07".into(),
            tier1: Some(min),
            tier2: None,
            violation: v2,
            found_by: serde_json::json!({"VERIF_SEED": seed, "run_index": idx, "original_scenario": sc}),
        };
        let path = write_replay(&replay_dir, &format!("t1_{}_{}", v.class, idx), &rp);
        violation_lines.push(format!("VIOLATION property=C07 replay={path}"));
    }
    for (idx, sc, v) in t2.violations.iter() {
        if !seen_classes.insert(format!("t2:{}", v.class)) || seen_classes.len() > 8 {
            continue;
        }
        let min = tier2::minimise2(sc, &v.class);
        let v2 = tier2::run_scenario2(&min).err().unwrap_or_else(|| v.clone());
        let rp = Replay {
            property: "C07".into(),
            tier1: None,
            tier2: Some(min),
            violation: v2,
            found_by: serde_json::json!({"VERIF_SEED": seed, "run_index": idx}),
        };
        let path = write_replay(&replay_dir, &format!("t2_{}_{}", v.class, idx), &rp);
        violation_lines.push(format!("VIOLATION property=C07 replay={path}"));
    }

    // reach check: a dead generator branch must not pass silently
    let mut reach = serde_json::Map::new();
    for k in 0..8 {
        reach.insert(REACH_NAMES[k].into(), serde_json::json!(total.reach[k]));
    }
    for (k, v) in t2.reach.iter() {
        reach.insert(format!("tier2_{k}"), serde_json::json!(v));
    }
    let nviol = total.violations.len() as u64 + t2.violations.len() as u64;
    let dead: Vec<String> = reach.iter().filter(|(_, v)| v.as_u64() == Some(0)).map(|(k, _)| k.clone()).collect();

    let mut extra = serde_json::Map::new();
    extra.insert("tier1_runs".into(), serde_json::json!(total.evaluations));
    extra.insert("tier1_systems_with_all_permutations".into(), serde_json::json!(total.exhaustive_systems));
    extra.insert("tier1_permutation_runs".into(), serde_json::json!(total.exhaustive_orders));
    extra.insert("tier2_runs".into(), serde_json::json!(t2.evaluations));
    extra.insert("tier2_distinct".into(), serde_json::json!(t2.distinct));
    extra.insert("tier2_distinct_nontrivial".into(), serde_json::json!(t2.nontrivial));
    extra.insert("solver_callbacks_total".into(), serde_json::json!(total.callbacks + t2.callbacks));
    extra.insert("simulated_time".into(), serde_json::json!(format!("{} solver steps (edge evaluations); no clock exists on this path", total.callbacks + t2.callbacks)));
    extra.insert("runs_per_hour".into(), serde_json::json!(((total.evaluations + t2.evaluations) as f64 / wall * 3600.0) as u64));
    extra.insert("reach".into(), serde_json::Value::Object(reach));
    extra.insert("fault_kinds".into(), serde_json::json!({
        "preemption_by_step_bound": total.reach[1], "resume_after_preemption": total.reach[2],
        "value_injection_between_slices": total.reach[3]}));
    extra.insert("distinct_count_method".into(), serde_json::json!(format!("exact count of FNV-1a hashes of the serialized scenario, restricted to hashes divisible by {sample_mod} (a conservative lower bound when > 1)")));
    extra.insert("exhaustive".into(), serde_json::json!(false));
    extra.insert("exhaustive_note".into(), serde_json::json!("orders are enumerated exhaustively (all n! permutations) for the sampled systems with n <= 6 counted in tier1_systems_with_all_permutations; systems are sampled"));
    extra.insert("components".into(), serde_json::json!({
        "real": ["analysis::fixpoint::Computation", "forward_interprocedural_fixpoint::{GeneralizedContext, create_bottom_up_worklist, create_top_down_worklist, create_computation*}", "analysis::graph::get_program_cfg", "interprocedural_fixpoint_generic::NodeValue"],
        "simulated": ["transfer system (Context impl) with counting callbacks and step budget", "node priority schedule", "pre-emption points", "injected values"]}));
    extra.insert("tier1_wall_s".into(), serde_json::json!(t1_wall));
    let mut samples: Vec<serde_json::Value> = total.samples.iter().map(|(i, sc, st)| serde_json::json!({"tier": 1, "run_index": i, "scenario": sc, "reference_rounds": st.ref_rounds, "solver_callbacks": st.callbacks, "verdict": "holds"})).collect();
    samples.extend(t2.samples.iter().cloned());
    let ev = simcommon::evidence::Evidence {
        property_id: "C07".into(),
        tier: tier.clone(),
        seed,
        evaluations: total.evaluations + t2.evaluations,
        distinct_nontrivial: total.nontrivial_distinct.len() as u64 + t2.nontrivial,
        rule: "tier 1: seeded random transfer systems (1-12 nodes, <=30 edges, bitset lattice of 1-8 bits, blocking/non-distributive monotone edge functions, partial or default start) x schedule (solver order, identity, reverse, random permutation; all permutations for every 40th system with <=6 nodes) x pre-emption slices and injected values; tier 2: generated IR programs -> real CFG -> mock interprocedural transfer system x (default, bottom-up, top-down, random) orders. distinct = distinct hash of (system, order, steps); non-trivial = the reference solver needed >= 3 rounds to converge".into(),
        samples,
        extra,
        assumptions: vec![
            "the reference solver (Kleene iteration, 20 lines) is correct".into(),
            "generated edge functions are monotone (asserted exhaustively per system before use)".into(),
            "priority lists handed to from_node_priority_list are permutations of all nodes, which is the contract of that constructor".into(),
        ],
        wall_s: wall,
        violations: nviol,
    };
    ev.write(&format!("{verif_dir}/evidence/C07.json")).unwrap();
    println!("C07: {} tier-1 runs ({} systems with all permutations), {} tier-2 runs, {} distinct non-trivial, {:.1}s", total.evaluations, total.exhaustive_systems, t2.evaluations, total.nontrivial_distinct.len() as u64 + t2.nontrivial, wall);
    if !dead.is_empty() && nviol == 0 {
        eprintln!("HARNESS ERROR: reach counters stuck at zero: {dead:?}");
        std::process::exit(2);
    }
    if !violation_lines.is_empty() {
        for l in &violation_lines {
            println!("{l}");
        }
        std::process::exit(1);
    }
    println!("C07: property held on everything explored");
}
