//! C25 engine B: scenarios [from, to) of the C25 stream on the real crossbeam-channel and real
//! std threads, interpreted by Miri (`-Zmiri-seed` decides the schedule, so a run replays exactly).
//! usage: c25b <verif_seed> <from> <to> | c25b scenario '<json>'

#[path = "../../../sim/c25/src/scenario.rs"]
mod scenario;

use scenario::{check, execute, gen, Scenario};
use std::sync::{Arc, Mutex};

fn run(sc: &Scenario) -> Result<(Vec<scenario::Ev>, Option<scenario::Output>), String> {
    let hist = Arc::new(Mutex::new(Vec::new()));
    let out = execute(sc, hist.clone());
    let hist = hist.lock().unwrap().clone();
    match check(sc, &hist, &out) {
        Ok(()) => Ok((hist, out)),
        Err((class, detail)) => Err(format!("{class}: {detail}\n history {hist:?}\n output {out:?}")),
    }
}

fn main() {
    let args: Vec<String> = std::env::args().collect();
    if args.len() >= 3 && args[1] == "scenario" {
        let sc: Scenario = serde_json::from_str(&args[2]).expect("bad scenario json");
        match run(&sc) {
            Ok((h, o)) => println!("HOLDS history={h:?} output={o:?}"),
            Err(e) => {
                println!("C25B-VIOLATION {e}\n scenario {}", serde_json::to_string(&sc).unwrap());
                std::process::exit(1);
            }
        }
        return;
    }
    let seed: u64 = args[1].parse().unwrap();
    let from: u64 = args[2].parse().unwrap();
    let to: u64 = args[3].parse().unwrap();
    let mut digest: u64 = 0;
    for i in from..to {
        // same stream as engine A: scenario i of the campaign
        let sc = gen(simcommon::derive(seed, "C25", i, 0));
        match run(&sc) {
            Ok((h, _)) => {
                digest = simcommon::mix(digest ^ simcommon::fnv64(format!("{h:?}").as_bytes()));
            }
            Err(e) => {
                println!("C25B-VIOLATION index={i} {e}\n scenario {}", serde_json::to_string(&sc).unwrap());
                std::process::exit(1);
            }
        }
    }
    println!("C25B-OK from={from} to={to} history_digest={digest:016x}");
}
