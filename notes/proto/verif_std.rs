//! Verification-only stand-in for the parts of `std` used by `utils::log`:
//! identical to `std` except that `thread` is the simulator's scheduler-owned thread module.
pub use ::std::{collections, fmt, fs};
pub mod thread {
    pub use shuttle::thread::{spawn, JoinHandle};
}
