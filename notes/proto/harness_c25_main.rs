// scratch prototype: C25 engine A
use cwe_checker_lib::intermediate_representation::Tid;
use cwe_checker_lib::utils::log::*;
use shuttle::scheduler::{PctScheduler, RandomScheduler};
use std::sync::{Arc, Mutex};

fn mix(mut z: u64) -> u64 { z = z.wrapping_add(0x9E3779B97F4A7C15); z = (z ^ (z >> 30)).wrapping_mul(0xBF58476D1CE4E5B9); z = (z ^ (z >> 27)).wrapping_mul(0x94D049BB133111EB); z ^ (z >> 31) }
struct Rng(u64); impl Rng { fn below(&mut self, n: u64) -> u64 { self.0 = mix(self.0); self.0 % n } }
#[derive(Clone, Debug)] enum Kind { Gen, Loc(u8), Cwe(u8, Option<u8>) }
#[derive(Clone, Debug)] struct Msg { id: u32, kind: Kind }
#[derive(Clone, Debug)] struct Scenario { producers: Vec<Vec<Msg>>, main_msgs: Vec<Msg>, mode: u8 } // mode 0: join producers then collect; 1: collect while running; 2: drop without collect
#[derive(Clone, Debug, PartialEq)] enum Ev { Invoke(u32), Ok(u32), CollectCalled }
fn gen(seed: u64) -> Scenario { let mut r = Rng(seed); let mut id = 0; let mut mk = |r: &mut Rng| { id += 1; let kind = match r.below(3) { 0 => Kind::Gen, 1 => Kind::Loc(r.below(3) as u8), _ => Kind::Cwe(r.below(3) as u8, if r.below(2) == 0 { Some(r.below(3) as u8) } else { None }) }; Msg { id, kind } };
    let np = r.below(4); let mut producers = vec![]; for _ in 0..np { let n = r.below(4); producers.push((0..n).map(|_| mk(&mut r)).collect()); }
    let nm = r.below(4); let main_msgs = (0..nm).map(|_| mk(&mut r)).collect(); Scenario { producers, main_msgs, mode: r.below(8).min(2) as u8 } }
fn to_msg(m: &Msg) -> LogThreadMsg { match &m.kind {
    Kind::Gen => LogMessage::new_info(format!("#{}", m.id)).into(),
    Kind::Loc(a) => LogMessage::new_info(format!("#{}", m.id)).location(Tid::blk_id_at_address(&format!("A{a}")).with_id_suffix(&format!("_{}", m.id))).into(),
    Kind::Cwe(a, b) => { let mut ad = vec![format!("A{a}")]; if let Some(b) = b { ad.push(format!("A{b}")); } CweWarning::new("CWE0", "0", format!("#{}", m.id)).addresses(ad).into() } } }
fn addr(m: &Msg) -> Option<(bool, u8)> { match m.kind { Kind::Gen => None, Kind::Loc(a) => Some((false, a)), Kind::Cwe(a, _) => Some((true, a)) } }
fn parse_id(s: &str) -> u32 { s.trim_start_matches('#').parse().unwrap() }
fn execute(sc: &Scenario, hist: Arc<Mutex<Vec<Ev>>>) -> Option<(Vec<u32>, Vec<u32>)> {
    let lt = LogThread::spawn(LogThread::collect_and_deduplicate);
    let mut hs = vec![];
    for p in sc.producers.iter().cloned() { let s = lt.get_msg_sender(); let hist = hist.clone();
        hs.push(shuttle::thread::spawn(move || { for m in p { hist.lock().unwrap().push(Ev::Invoke(m.id)); if s.send(to_msg(&m)).is_ok() { hist.lock().unwrap().push(Ev::Ok(m.id)); } } })); }
    let s = lt.get_msg_sender();
    for m in sc.main_msgs.iter() { hist.lock().unwrap().push(Ev::Invoke(m.id)); if s.send(to_msg(m)).is_ok() { hist.lock().unwrap().push(Ev::Ok(m.id)); } }
    match sc.mode {
        0 => { for h in hs.drain(..) { h.join().unwrap(); } hist.lock().unwrap().push(Ev::CollectCalled); let (l, c) = lt.collect(); Some((l.iter().map(|x| parse_id(&x.text)).collect(), c.iter().map(|x| parse_id(&x.description)).collect())) }
        1 => { hist.lock().unwrap().push(Ev::CollectCalled); let (l, c) = lt.collect(); for h in hs.drain(..) { h.join().unwrap(); } Some((l.iter().map(|x| parse_id(&x.text)).collect(), c.iter().map(|x| parse_id(&x.description)).collect())) }
        _ => { drop(lt); for h in hs.drain(..) { h.join().unwrap(); } None } }
}
fn check(sc: &Scenario, hist: &[Ev], out: &Option<(Vec<u32>, Vec<u32>)>) -> Result<(), String> {
    let Some((logs, cwes)) = out else { return Ok(()) };
    let all: Vec<&Msg> = sc.producers.iter().flatten().chain(sc.main_msgs.iter()).collect();
    let pos = |e: &Ev| hist.iter().position(|x| x == e);
    let cc = pos(&Ev::CollectCalled).unwrap();
    let done_before = |m: &Msg| pos(&Ev::Ok(m.id)).map_or(false, |p| p < cc);
    let prec = |a: &Msg, b: &Msg| match (pos(&Ev::Ok(a.id)), pos(&Ev::Invoke(b.id))) { (Some(x), Some(y)) => x < y, _ => false };
    let by_id = |id: u32| all.iter().find(|m| m.id == id).copied();
    // no invention / dup
    let mut seen = std::collections::BTreeSet::new();
    for id in logs.iter().chain(cwes.iter()) { if by_id(*id).is_none() { return Err(format!("invented {id}")); } if !seen.insert(*id) { return Err(format!("duplicate {id}")); } }
    for id in logs { if matches!(by_id(*id).unwrap().kind, Kind::Cwe(..)) { return Err("cwe in logs".into()); } }
    for id in cwes { if !matches!(by_id(*id).unwrap().kind, Kind::Cwe(..)) { return Err("log in cwes".into()); } }
    // delivery + order of general logs
    let gens: Vec<&Msg> = logs.iter().map(|i| by_id(*i).unwrap()).filter(|m| matches!(m.kind, Kind::Gen)).collect();
    for m in all.iter().filter(|m| matches!(m.kind, Kind::Gen)) { if done_before(m) && !gens.iter().any(|g| g.id == m.id) { return Err(format!("lost general log {}", m.id)); } }
    for i in 0..gens.len() { for j in i + 1..gens.len() { if prec(gens[j], gens[i]) { return Err(format!("order: {} before {} in output but sent after", gens[i].id, gens[j].id)); } } }
    // dedup = last writer per (class, address)
    for class in [false, true] { for a in 0..3u8 {
        let cands: Vec<&&Msg> = all.iter().filter(|m| addr(m) == Some((class, a))).collect();
        let returned: Vec<&Msg> = (if class { cwes } else { logs }).iter().map(|i| by_id(*i).unwrap()).filter(|m| addr(m) == Some((class, a))).collect();
        if returned.len() > 1 { return Err(format!("two entries for address {a}")); }
        let committed: Vec<&&&Msg> = cands.iter().filter(|m| done_before(m)).collect();
        if !committed.is_empty() { let Some(r) = returned.first() else { return Err(format!("address {a}: nothing kept")) };
            if let Some(later) = committed.iter().find(|m| prec(r, m)) { return Err(format!("address {a}: kept {} but {} was sent later", r.id, later.id)); } } } }
    Ok(())
}
fn main() {
    let n: u64 = std::env::args().nth(1).unwrap().parse().unwrap();
    let t = std::time::Instant::now(); let mut inter = std::collections::HashSet::new();
    for i in 0..n {
        let sc = gen(mix(i)); let hist = Arc::new(Mutex::new(vec![])); let out = Arc::new(Mutex::new(None));
        let (sc2, h2, o2) = (sc.clone(), hist.clone(), out.clone());
        let body = move || { *o2.lock().unwrap() = execute(&sc2, h2.clone()); };
        let mut cfg = shuttle::Config::new(); cfg.max_steps = shuttle::MaxSteps::FailAfter(10_000);
        let res = std::panic::catch_unwind(std::panic::AssertUnwindSafe(|| { if i % 2 == 0 { shuttle::Runner::new(RandomScheduler::new_from_seed(mix(i ^ 77), 1), cfg).run(body) } else { shuttle::Runner::new(PctScheduler::new_from_seed(mix(i ^ 77), 1 + (i % 4) as usize, 1), cfg).run(body) }; }));
        if res.is_err() { println!("seed {i}: panic/deadlock in scenario {:?}", sc); std::process::exit(1); }
        let hist = hist.lock().unwrap().clone(); let out = out.lock().unwrap().clone();
        if let Err(e) = check(&sc, &hist, &out) { println!("seed {i}: {e}\n scenario {:?}\n history {:?}\n out {:?}", sc, hist, out); std::process::exit(1); }
        inter.insert(format!("{:?}", hist));
    }
    println!("{n} runs ok, distinct histories {}, {:?}", inter.len(), t.elapsed());
}
