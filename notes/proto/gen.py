import json, struct, random, sys
def var(name,size,virt=False): return {"name":name,"value":None,"address":None,"size":size,"is_virtual":virt}
def const(v,size): return {"name":None,"value":"%x"%(v & ((1<<(8*size))-1)),"address":None,"size":size,"is_virtual":False}
def tid(i,a): return {"id":i,"address":a}
REGS64=["RAX","RBX","RCX","RDX","RSI","RDI","RBP","RSP","R8","R9","R10","R11","R12","R13","R14","R15"]
def regprops():
    out=[]
    for r in REGS64:
        out.append({"register":r,"base_register":r,"lsb":0,"size":8})
    for r,b in [("EAX","RAX"),("EDI","RDI"),("ESI","RSI"),("EDX","RDX"),("ECX","RCX")]:
        out.append({"register":r,"base_register":b,"lsb":0,"size":4})
    out.append({"register":"AL","base_register":"RAX","lsb":0,"size":1})
    out.append({"register":"ZF","base_register":"ZF","lsb":0,"size":1})
    out.append({"register":"CF","base_register":"CF","lsb":0,"size":1})
    return out
def cconv():
    return [{"calling_convention":"__stdcall","integer_parameter_register":["RDI","RSI","RDX","RCX","R8","R9"],"float_parameter_register":[],
      "return_register":["RAX"],"float_return_register":[],"unaffected_register":["RBX","RBP","RSP","R12","R13","R14","R15"],"killed_by_call_register":["RAX","RCX","RDX","RSI","RDI","R8","R9","R10","R11"]}]
class B:
    def __init__(s): s.addr=0x401000; s.subs=[]; s.ext=[]
    def a(s): s.addr+=4; return "%08x"%s.addr
def gen(seed):
    rnd=random.Random(seed); b=B()
    extnames=["malloc","free","strcpy","system","ioctl","setuid","access","open","umask","chroot","chdir","printf","memcpy","rand","srand","exit","realloc","sprintf","strlen","gets"]
    ext=[]
    for i,n in enumerate(extnames):
        addr="%08x"%(0x400100+16*i)
        args=[]
        nparams={"malloc":1,"free":1,"strcpy":2,"system":1,"ioctl":2,"setuid":1,"access":2,"open":2,"umask":1,"chroot":1,"chdir":1,"printf":1,"memcpy":3,"rand":0,"srand":1,"exit":1,"realloc":2,"sprintf":2,"strlen":1,"gets":1}[n]
        for k in range(nparams):
            args.append({"var":var(["RDI","RSI","RDX"][k],8),"location":None,"intent":"INPUT"})
        if n not in("free","exit","srand"): args.append({"var":var("RAX",8),"location":None,"intent":"OUTPUT"})
        ext.append({"tid":tid("sub_"+addr,addr),"addresses":[addr],"name":n,"calling_convention":"__stdcall","arguments":args,"no_return":n=="exit","has_var_args":n in("printf","sprintf")})
    nsubs=rnd.randint(2,5); subaddr=[]
    subs=[]
    base=0x401000
    for si in range(nsubs):
        nblk=rnd.randint(1,6)
        blkaddrs=["%08x"%(base+si*0x1000+bi*0x40) for bi in range(nblk)]
        subaddr.append(blkaddrs[0])
    for si in range(nsubs):
        nblk=rnd.randint(1,6)
        rnd2=random.Random(seed*100+si)
        nblk=rnd2.randint(1,6)
        blkaddrs=["%08x"%(base+si*0x1000+bi*0x40) for bi in range(nblk)]
        blocks=[]
        for bi,ba in enumerate(blkaddrs):
            defs=[];n=0
            ia=int(ba,16)
            def dt():
                nonlocal n; n+=1; return tid("instr_%08x_%d"%(ia+n*2,0),"%08x"%(ia+n*2))
            for _ in range(rnd2.randint(0,5)):
                k=rnd2.randint(0,5)
                r1=rnd2.choice(["RAX","RBX","RCX","RDX","RSI","RDI"]); r2=rnd2.choice(["RAX","RBX","RCX","RDX","RSI","RDI","RSP"])
                if k==0: defs.append({"tid":dt(),"term":{"lhs":var(r1,8),"rhs":{"mnemonic":"COPY","input0":var(r2,8),"input1":None,"input2":None}}})
                elif k==1: defs.append({"tid":dt(),"term":{"lhs":var(r1,8),"rhs":{"mnemonic":"INT_ADD","input0":var(r2,8),"input1":const(rnd2.randint(-64,64),8),"input2":None}}})
                elif k==2: defs.append({"tid":dt(),"term":{"lhs":var(r1,8),"rhs":{"mnemonic":"LOAD","input0":const(0x1b1,8),"input1":var(r2,8),"input2":None}}})
                elif k==3: defs.append({"tid":dt(),"term":{"lhs":None,"rhs":{"mnemonic":"STORE","input0":const(0x1b1,8),"input1":var(r2,8),"input2":var(r1,8)}}})
                elif k==4: defs.append({"tid":dt(),"term":{"lhs":var(r1,8),"rhs":{"mnemonic":"COPY","input0":const(rnd2.choice([0,8,0x1ff,0o22,0x402000,0x403000]),8),"input1":None,"input2":None}}})
                else: defs.append({"tid":dt(),"term":{"lhs":var("ZF",1),"rhs":{"mnemonic":"INT_EQUAL","input0":var(r1,8),"input1":const(0,8),"input2":None}}})
            jt=lambda k: tid("instr_%08x_%d"%(ia+0x30,k),"%08x"%(ia+0x30))
            jm=[]
            last = bi==nblk-1
            choice=rnd2.randint(0,5)
            if last or choice==0:
                jm=[{"tid":jt(0),"term":{"mnemonic":"RETURN","goto":{"Indirect":var("RIP_ret",8,True)},"call":None,"condition":None,"target_hints":None}}]
                defs.append({"tid":dt(),"term":{"lhs":var("RIP_ret",8,True),"rhs":{"mnemonic":"LOAD","input0":const(0x1b1,8),"input1":var("RSP",8),"input2":None}}})
                defs.append({"tid":dt(),"term":{"lhs":var("RSP",8),"rhs":{"mnemonic":"INT_ADD","input0":var("RSP",8),"input1":const(8,8),"input2":None}}})
            elif choice==1:
                t=rnd2.choice(blkaddrs)
                jm=[{"tid":jt(0),"term":{"mnemonic":"BRANCH","goto":{"Direct":tid("blk_"+t,t)},"call":None,"condition":None,"target_hints":None}}]
            elif choice==2:
                t=rnd2.choice(blkaddrs); f=blkaddrs[bi+1]
                jm=[{"tid":jt(0),"term":{"mnemonic":"CBRANCH","goto":{"Direct":tid("blk_"+t,t)},"call":None,"condition":var("ZF",1),"target_hints":None}},
                    {"tid":jt(1),"term":{"mnemonic":"BRANCH","goto":{"Direct":tid("blk_"+f,f)},"call":None,"condition":None,"target_hints":None}}]
            else:
                f=blkaddrs[bi+1]
                if rnd2.random()<0.75:
                    e=rnd2.choice(ext); tg=e["tid"]; ret=None if e["no_return"] else {"Direct":tid("blk_"+f,f)}
                else:
                    s=rnd2.choice(subaddr); tg=tid("sub_"+s,s); ret={"Direct":tid("blk_"+f,f)}
                jm=[{"tid":jt(0),"term":{"mnemonic":"CALL","goto":None,"call":{"target":{"Direct":tg},"return":ret,"call_string":None},"condition":None,"target_hints":None}}]
            blocks.append({"tid":tid("blk_"+ba,ba),"term":{"defs":defs,"jmps":jm}})
        subs.append({"tid":tid("sub_"+blkaddrs[0],blkaddrs[0]),"term":{"name":"fn%d"%si,"blocks":blocks,"calling_convention":"__stdcall"}})
    proj={"program":{"tid":tid("prog_00400000","00400000"),"term":{"subs":subs,"extern_symbols":ext,"entry_points":[subs[0]["tid"]],"image_base":"400000"}},
      "stack_pointer_register":var("RSP",8),"cpu_architecture":"x86_64","register_properties":regprops(),"register_calling_convention":cconv(),
      "datatype_properties":{"char_size":1,"double_size":8,"float_size":4,"integer_size":4,"long_double_size":8,"long_long_size":8,"long_size":8,"pointer_size":8,"short_size":2}}
    return proj
def elf():
    # ELF64 LE ET_EXEC x86_64, 2 PT_LOAD: text RX @0x400000 (file 0..0x2000), data RW @0x402000? use rodata R @0x402000, data RW @0x403000
    ehsize=64; phsize=56; phnum=3
    ph=b""
    segs=[(0x400000,0,0x2000,5),(0x402000,0x2000,0x1000,4),(0x403000,0x3000,0x1000,6)]
    for va,off,sz,fl in segs:
        ph+=struct.pack("<IIQQQQQQ",1,fl,off,va,va,sz,sz,0x1000)
    eh=b"\x7fELF"+bytes([2,1,1,0])+bytes(8)+struct.pack("<HHIQQQIHHHHHH",2,62,1,0x401000,ehsize,0,0,ehsize,phsize,phnum,64,0,0)
    body=eh+ph
    body+=bytes(0x2000-len(body))
    ro=bytearray(0x1000); ro[0:6]=b"/bin/sh"[:6]; ro[16:22]=b"%s %d\0"
    body+=bytes(ro)+bytes(0x1000)
    return body
if __name__=="__main__":
    seed=int(sys.argv[1]); out=sys.argv[2]
    json.dump(gen(seed),open(out+".json","w"))
    open(out+".elf","wb").write(elf())
