//! C25 scenarios, execution against the real `LogThread`, and the history oracle.
//! Shared by engine A (shuttle + channel stand-in, `cfg(cwe_checker_verif)`) and engine B
//! (Miri interpreting the unmodified library: real crossbeam-channel, real std threads).

#[cfg(cwe_checker_verif)]
use shuttle::thread;
#[cfg(not(cwe_checker_verif))]
use std::thread;

use cwe_checker_lib::intermediate_representation::Tid;
use cwe_checker_lib::utils::log::{CweWarning, LogMessage, LogThread, LogThreadMsg};
use serde::{Deserialize, Serialize};
use simcommon::Rng;
use std::sync::{Arc, Mutex};

#[derive(Clone, Debug, Serialize, Deserialize, PartialEq, Eq, Hash)]
pub enum Kind {
    /// address-less log message
    Gen,
    /// log message with a location at address `A<n>`
    Loc(u8),
    /// CWE warning with first address `A<n>` and an optional second address
    Cwe(u8, Option<u8>),
    /// CWE warning without any address (what `CweWarning::new` gives when no address is attached;
    /// the checks CWE215 and CWE332 report such warnings)
    CweNoAddr,
}

#[derive(Clone, Debug, Serialize, Deserialize, PartialEq, Eq, Hash)]
pub struct Msg {
    /// unique key of the send in the recorded history
    pub id: u32,
    /// what the message says: messages with equal content are indistinguishable to the collector
    pub content: u32,
    pub kind: Kind,
    /// explicit yields before the send (the "random yields" of the quantifier)
    pub yields: u8,
}

#[derive(Clone, Copy, Debug, Serialize, Deserialize, PartialEq, Eq, Hash)]
pub enum Mode {
    /// join all producers, then `collect()` (how pointer inference and CWE119 use it)
    JoinThenCollect,
    /// `collect()` while producers may still be running; they are joined afterwards
    CollectWhileRunning,
    /// like JoinThenCollect, but a sender clone is kept alive across `collect()`
    CollectWithLiveClone,
    /// drop the `LogThread` without collecting, while producers may still be running
    DropWithoutCollect,
    /// custom collector closure that returns messages in arrival order (no de-duplication)
    CustomCollector,
    /// producers get `create_disconnected_sender()`; every send must fail without blocking
    Disconnected,
}

#[derive(Clone, Debug, Serialize, Deserialize, PartialEq, Eq, Hash)]
pub struct Scenario {
    pub producers: Vec<Vec<Msg>>,
    /// messages the collecting thread sends itself before collecting
    pub main_msgs: Vec<Msg>,
    pub mode: Mode,
    pub main_yields: u8,
}

#[derive(Clone, Debug, Serialize, Deserialize, PartialEq, Eq, Hash)]
pub enum Ev {
    Invoke(u32),
    Ok(u32),
    SendFailed(u32),
    CollectCalled,
    CollectReturned,
}

#[derive(Clone, Debug, Serialize, Deserialize, PartialEq, Eq)]
pub struct Output {
    pub logs: Vec<u32>,
    pub cwes: Vec<u32>,
}

/// upper bound of the address pool (ordinary scenarios use 3 addresses, bursts up to 11)
pub const ADDRS: u8 = 12;

pub fn gen(seed: u64) -> Scenario {
    let mut r = Rng::new(seed);
    // bursts: few producers, many messages for few addresses (a fixpoint re-emitting its warnings
    // round after round); ordinary scenarios: up to 4 producers, up to 12 messages, 3 addresses
    let burst = r.chance(6);
    let pool = if burst { r.range(3, 11) } else { 3 };
    let mut id = 0u32;
    let mut sent: Vec<(u32, Kind)> = Vec::new();
    let dup_rate = *r.pick(&[0u64, 0, 15, 40]);
    let addressless_cwes = r.chance(20);
    let mut mk = |r: &mut Rng| {
        id += 1;
        if !sent.is_empty() && r.chance(dup_rate) {
            // an identical message is sent again (retries, loops re-emitting the same log line)
            let (content, kind) = sent[r.below(sent.len() as u64) as usize].clone();
            return Msg { id, content, kind, yields: 0 };
        }
        let kind = match r.below(10) {
            _ if addressless_cwes && r.chance(8) => Kind::CweNoAddr,
            0..=3 => Kind::Gen,
            4..=5 => Kind::Loc(r.below(pool) as u8),
            _ => Kind::Cwe(
                r.below(pool) as u8,
                if r.chance(40) { Some(r.below(pool) as u8) } else { None },
            ),
        };
        sent.push((id, kind.clone()));
        Msg { id, content: id, kind, yields: if r.chance(25) { r.range(1, 2) as u8 } else { 0 } }
    };
    let np = if burst { r.range(1, 2) as usize } else { r.below(5) as usize };
    let mut budget = if burst { r.range(33, 72) as usize } else { 12usize };
    let mut producers = Vec::new();
    for _ in 0..np {
        let n = if burst { (budget / np).max(1) + r.below(4) as usize } else { r.below(5) as usize }.min(budget);
        budget -= n;
        producers.push((0..n).map(|_| mk(&mut r)).collect());
    }
    let nm = (r.below(4) as usize).min(budget);
    let main_msgs = (0..nm).map(|_| mk(&mut r)).collect();
    let mode = match r.below(16) {
        0..=5 => Mode::JoinThenCollect,
        6..=9 => Mode::CollectWhileRunning,
        10..=11 => Mode::CollectWithLiveClone,
        12 => Mode::DropWithoutCollect,
        13..=14 => Mode::CustomCollector,
        _ => Mode::Disconnected,
    };
    Scenario { producers, main_msgs, mode, main_yields: r.below(3) as u8 }
}

/// Spelling of reporting address number `a`. The collector treats addresses as opaque strings; the
/// pool mixes the forms that occur: fixed-width hex (ordinary terms), `UNKNOWN` (`Tid::new` for
/// artificial terms), addresses with an address-space prefix, and other spellings of one number.
pub fn addr_name(a: u8) -> String {
    const NAMES: [&str; 12] = [
        "00401000", "UNKNOWN", "EXTERNAL:00000008", "0040100c", "401000", "0x401000", "ram:00401000", "EXTERNAL:00000010",
        "00401004", "0040100C", "00401010", "004010a0",
    ];
    NAMES[a as usize % NAMES.len()].to_string()
}

/// A log message saying `#<content>`. Level and source follow from the content (so that sends with
/// equal content stay indistinguishable): the collector's contract does not depend on either, and
/// the analyses do send debug, info and error logs from different sources for one address.
fn log_of(content: u32) -> LogMessage {
    let text = format!("#{content}");
    let msg = match content % 3 {
        0 => LogMessage::new_info(text),
        1 => LogMessage::new_debug(text),
        _ => LogMessage::new_error(text),
    };
    match (content / 3) % 3 {
        0 => msg,
        1 => msg.source("Pointer Inference"),
        _ => msg.source("CWE119"),
    }
}

/// A warning saying `#<content>`; the check name follows from the content (several checks do report
/// the same address: the collector keeps one warning per reporting address whoever sent it).
fn cwe_of(content: u32) -> CweWarning {
    const NAMES: [&str; 3] = ["CWE0", "CWE476", "CWE119"];
    CweWarning::new(NAMES[(content % 3) as usize], "0", format!("#{content}"))
}

fn to_msg(m: &Msg) -> LogThreadMsg {
    match &m.kind {
        Kind::Gen => log_of(m.content).into(),
        Kind::Loc(a) => log_of(m.content)
            .location(Tid::blk_id_at_address(&addr_name(*a)).with_id_suffix(&format!("_{}", m.content)))
            .into(),
        Kind::Cwe(a, b) => {
            let mut ad = vec![addr_name(*a)];
            if let Some(b) = b {
                ad.push(addr_name(*b));
            }
            cwe_of(m.content).addresses(ad).into()
        }
        Kind::CweNoAddr => cwe_of(m.content).into(),
    }
}

fn parse_id(s: &str) -> u32 {
    s.trim_start_matches('#').parse().unwrap_or(u32::MAX)
}

type Hist = Arc<Mutex<Vec<Ev>>>;

fn push(h: &Hist, e: Ev) {
    h.lock().unwrap().push(e);
}

fn send_script(sender: &crossbeam_channel::Sender<LogThreadMsg>, script: &[Msg], hist: &Hist) {
    for m in script {
        for _ in 0..m.yields {
            thread::yield_now();
        }
        push(hist, Ev::Invoke(m.id));
        match sender.send(to_msg(m)) {
            Ok(()) => push(hist, Ev::Ok(m.id)),
            Err(_) => push(hist, Ev::SendFailed(m.id)),
        }
    }
}

fn arrival_order_collector(receiver: crossbeam_channel::Receiver<LogThreadMsg>) -> (Vec<LogMessage>, Vec<CweWarning>) {
    let mut logs = Vec::new();
    let mut cwes = Vec::new();
    while let Ok(msg) = receiver.recv() {
        match msg {
            LogThreadMsg::Log(l) => logs.push(l),
            LogThreadMsg::Cwe(c) => cwes.push(c),
            LogThreadMsg::Terminate => break,
        }
    }
    (logs, cwes)
}

/// Run the scenario against the real `LogThread`. Must be called inside the engine's execution.
pub fn execute(sc: &Scenario, hist: Hist) -> Option<Output> {
    let lt = match sc.mode {
        Mode::CustomCollector => LogThread::spawn(arrival_order_collector),
        _ => LogThread::spawn(LogThread::collect_and_deduplicate),
    };
    let mut handles = Vec::new();
    for script in sc.producers.iter().cloned() {
        let sender = if sc.mode == Mode::Disconnected { LogThread::create_disconnected_sender() } else { lt.get_msg_sender() };
        let hist = hist.clone();
        handles.push(thread::spawn(move || send_script(&sender, &script, &hist)));
    }
    let main_sender = if sc.mode == Mode::Disconnected { LogThread::create_disconnected_sender() } else { lt.get_msg_sender() };
    send_script(&main_sender, &sc.main_msgs, &hist);
    for _ in 0..sc.main_yields {
        thread::yield_now();
    }
    let to_out = |(l, c): (Vec<LogMessage>, Vec<CweWarning>)| Output {
        logs: l.iter().map(|x| parse_id(&x.text)).collect(),
        cwes: c.iter().map(|x| parse_id(&x.description)).collect(),
    };
    match sc.mode {
        Mode::JoinThenCollect | Mode::CustomCollector | Mode::Disconnected => {
            drop(main_sender);
            for h in handles {
                h.join().unwrap();
            }
            push(&hist, Ev::CollectCalled);
            let out = lt.collect();
            push(&hist, Ev::CollectReturned);
            Some(to_out(out))
        }
        Mode::CollectWithLiveClone => {
            for h in handles {
                h.join().unwrap();
            }
            push(&hist, Ev::CollectCalled);
            let out = lt.collect();
            push(&hist, Ev::CollectReturned);
            drop(main_sender);
            Some(to_out(out))
        }
        Mode::CollectWhileRunning => {
            push(&hist, Ev::CollectCalled);
            let out = lt.collect();
            push(&hist, Ev::CollectReturned);
            for h in handles {
                h.join().unwrap();
            }
            Some(to_out(out))
        }
        Mode::DropWithoutCollect => {
            push(&hist, Ev::CollectCalled);
            drop(lt);
            push(&hist, Ev::CollectReturned);
            for h in handles {
                h.join().unwrap();
            }
            None
        }
    }
}

/// The oracle over the recorded history and the returned `(logs, warnings)`.
/// Returns the violated clause as `(class, detail)`.
pub fn check(sc: &Scenario, hist: &[Ev], out: &Option<Output>) -> Result<(), (String, String)> {
    let err = |c: &str, d: String| Err((c.to_string(), d));
    let all: Vec<&Msg> = sc.producers.iter().flatten().chain(sc.main_msgs.iter()).collect();
    let pos = |e: &Ev| hist.iter().position(|x| x == e);
    let Some(cc) = pos(&Ev::CollectCalled) else {
        return err("liveness", "collection was never requested (the collecting thread did not get there)".into());
    };
    if pos(&Ev::CollectReturned).is_none() {
        return err("liveness", "collect()/drop did not return".into());
    }
    if sc.mode == Mode::Disconnected {
        for m in &all {
            if pos(&Ev::SendFailed(m.id)).is_none() {
                return err("disconnected_sender", format!("send of message {} on a disconnected sender did not fail", m.id));
            }
        }
    } else {
        // a send can only fail after the collector is gone, i.e. never before collection was requested
        for m in &all {
            if let Some(p) = pos(&Ev::SendFailed(m.id)) {
                if p < cc {
                    return err("send_failed_before_collect", format!("send of message {} failed although the collector had not been stopped", m.id));
                }
            }
        }
    }
    let Some(out) = out else { return Ok(()) };
    // `out` lists message *contents*; several sends may carry the same content.
    let done_before = |m: &Msg| pos(&Ev::Ok(m.id)).map_or(false, |p| p < cc);
    // a ≺ b : a's send returned before b's send was invoked
    let prec = |a: &Msg, b: &Msg| match (pos(&Ev::Ok(a.id)), pos(&Ev::Invoke(b.id))) {
        (Some(x), Some(y)) => x < y,
        _ => false,
    };
    let is_cwe = |m: &Msg| matches!(m.kind, Kind::Cwe(..) | Kind::CweNoAddr);
    let sent_with = |content: u32, cwe: bool| -> Vec<&Msg> { all.iter().copied().filter(|m| m.content == content && is_cwe(m) == cwe).collect() };
    let count_in = |list: &[u32], content: u32| list.iter().filter(|c| **c == content).count();

    // clause 2: no invention, no duplication beyond what was sent, right stream
    for (list, cwe) in [(&out.logs, false), (&out.cwes, true)] {
        for c in list.iter() {
            let sent = sent_with(*c, cwe);
            if sent.is_empty() {
                if sent_with(*c, !cwe).is_empty() {
                    return err("invented_message", format!("returned element #{c} was never sent"));
                }
                return err("wrong_stream", format!("message #{c} returned in the wrong stream"));
            }
            if count_in(list, *c) > sent.len() {
                return err("duplicated_message", format!("message #{c} was sent {} times but returned {} times", sent.len(), count_in(list, *c)));
            }
        }
    }
    if sc.mode == Mode::Disconnected {
        if !out.logs.is_empty() || !out.cwes.is_empty() {
            return err("invented_message", "messages sent to a disconnected sender were collected".into());
        }
        return Ok(());
    }
    // order among a returned stream, as far as contents identify sends:
    // if every send of content x precedes (≺) every send of content y, all x come before all y
    let check_order = |list: &[u32], cwe: bool, what: &str| -> Result<(), (String, String)> {
        let mut distinct: Vec<u32> = Vec::new();
        for c in list {
            if !distinct.contains(c) {
                distinct.push(*c);
            }
        }
        for x in &distinct {
            for y in &distinct {
                if x == y {
                    continue;
                }
                let (sx, sy) = (sent_with(*x, cwe), sent_with(*y, cwe));
                if sx.iter().all(|a| sy.iter().all(|b| prec(a, b))) {
                    let last_x = list.iter().rposition(|c| c == x).unwrap();
                    let first_y = list.iter().position(|c| c == y).unwrap();
                    if last_x > first_y {
                        return Err(("order".to_string(), format!("{what} #{y} returned before #{x} although every send of #{x} completed before any send of #{y} began")));
                    }
                }
            }
        }
        Ok(())
    };

    if sc.mode == Mode::CustomCollector {
        // spawn/collect protocol alone: every committed message is delivered, in an order consistent with ≺
        check_order(&out.logs, false, "log")?;
        check_order(&out.cwes, true, "warning")?;
        for m in &all {
            let list = if is_cwe(m) { &out.cwes } else { &out.logs };
            let committed = sent_with(m.content, is_cwe(m)).iter().filter(|x| done_before(x)).count();
            if count_in(list, m.content) < committed {
                return err("lost_message", format!("message #{} was sent {committed} times before collection but returned {} times", m.content, count_in(list, m.content)));
            }
        }
        return Ok(());
    }

    // clause 1: delivery of address-less logs (as a multiset); clause 3: their order
    let gen_contents: Vec<u32> = out.logs.iter().copied().filter(|c| sent_with(*c, false).iter().any(|m| m.kind == Kind::Gen)).collect();
    for m in all.iter().filter(|m| m.kind == Kind::Gen) {
        let committed = sent_with(m.content, false).iter().filter(|x| done_before(x)).count();
        if count_in(&gen_contents, m.content) < committed {
            return err("lost_message", format!("address-less log #{} was sent {committed} times before collection but returned {} times", m.content, count_in(&gen_contents, m.content)));
        }
    }
    check_order(&gen_contents, false, "address-less log")?;
    // warnings without address have no reporting address to de-duplicate by: every committed one is returned
    for m in all.iter().filter(|m| m.kind == Kind::CweNoAddr) {
        let committed = sent_with(m.content, true).iter().filter(|x| done_before(x)).count();
        if count_in(&out.cwes, m.content) < committed {
            return err("lost_message", format!("address-less warning #{} was sent {committed} times before collection but returned {} times", m.content, count_in(&out.cwes, m.content)));
        }
    }
    // clause 4: per reporting address
    for a in 0..ADDRS {
        // warnings: exactly the last one
        let at_a: Vec<&Msg> = all.iter().copied().filter(|m| matches!(m.kind, Kind::Cwe(x, _) if x == a)).collect();
        let committed: Vec<&Msg> = at_a.iter().copied().filter(|m| done_before(m)).collect();
        let returned: Vec<u32> = out.cwes.iter().copied().filter(|c| at_a.iter().any(|m| m.content == *c)).collect();
        if returned.len() > 1 {
            return err("dedup_not_unique", format!("{} warnings returned for address A{a}", returned.len()));
        }
        if !committed.is_empty() {
            let Some(r) = returned.first() else {
                return err("lost_message", format!("warnings for address A{a} were sent before collection but none is returned"));
            };
            // some send of the kept content must not be followed (≺) by a committed warning that says something else
            let ok = at_a.iter().filter(|m| m.content == *r).any(|m| !committed.iter().any(|l| l.content != *r && prec(m, l)));
            if !ok {
                return err("dedup_not_last", format!("address A{a}: warning #{r} kept although a different warning for this address was sent after it (and before collection)"));
            }
        }
        // located logs: the statement promises delivery; the code de-duplicates by address.
        // Weaker of the two: a ≺-maximal committed log for the address must be present.
        let at_a: Vec<&Msg> = all.iter().copied().filter(|m| m.kind == Kind::Loc(a)).collect();
        let committed: Vec<&Msg> = at_a.iter().copied().filter(|m| done_before(m)).collect();
        let returned: Vec<u32> = out.logs.iter().copied().filter(|c| at_a.iter().any(|m| m.content == *c)).collect();
        if !committed.is_empty() {
            if returned.is_empty() {
                return err("lost_message", format!("located logs for address A{a} were sent before collection but none is returned"));
            }
            let ok = returned.iter().any(|r| at_a.iter().filter(|m| m.content == *r).any(|m| !committed.iter().any(|l| l.content != *r && prec(m, l))));
            if !ok {
                return err("dedup_not_last", format!("address A{a}: every returned located log is older than a different log sent before collection"));
            }
        }
    }
    Ok(())
}
