//! simctl — driver of the simulated-CLI campaigns (C21, C22, C23): generate workloads, spawn the
//! simulated analyzer under seeded environments, evaluate oracles, minimise and replay.

mod campaign;
mod elf;
mod gen;
mod minimise;
mod oracle;
mod run;

fn main() {
    let args: Vec<String> = std::env::args().collect();
    match args.get(1).map(|s| s.as_str()) {
        Some("gen") => {
            let seed: u64 = args[2].parse().unwrap();
            let out = &args[3];
            let w = gen::generate(seed);
            std::fs::write(format!("{out}.json"), serde_json::to_string(&w.pcode).unwrap()).unwrap();
            std::fs::write(format!("{out}.elf"), &w.elf).unwrap();
            println!("{:?}", w.meta);
        }
        Some("check") => {
            let prop = args.get(2).cloned().unwrap_or_default();
            let tier = args.iter().position(|a| a == "--tier").and_then(|i| args.get(i + 1)).cloned().unwrap_or_else(|| "quick".into());
            let num = |name: &str| args.iter().position(|a| a == name).and_then(|i| args.get(i + 1)).and_then(|s| s.parse::<u64>().ok());
            let dump = args.iter().any(|a| a == "--dump-log");
            std::process::exit(campaign::run_check(&prop, &tier, num("--workloads"), dump));
        }
        Some("replay") => {
            std::process::exit(campaign::replay(&args[2]));
        }
        Some("minimise") => {
            // simctl minimise <replay file> <out file> [budget] [tripwire ms]
            let budget = args.get(4).and_then(|s| s.parse().ok()).unwrap_or(300usize);
            let tripwire = args.get(5).and_then(|s| s.parse().ok()).unwrap_or(30_000u64);
            std::process::exit(campaign::minimise_replay(&args[2], &args[3], budget, tripwire));
        }
        _ => {
            eprintln!("usage: simctl gen <seed> <out-prefix> | check <C21|C22|C23> [--tier quick|thorough] [--workloads N] | replay <file>");
            std::process::exit(2);
        }
    }
}
