//! Process entry of the simulated CLI (`cwe_checker_sim`): runs the unchanged program body as
//! one execution of the simulator. All knobs come from the environment of the process:
//!
//! * `SIM_SCHED`  — schedule spec (`sticky`, `rr`, `random:<seed>`, `pct:<seed>:<depth>:<span>`,
//!   `trace:<ids>`), see `simcommon::sched`; default `sticky`.
//! * `SIM_EVENTS` — file that receives the event log summary (schedule taken, channel events,
//!   checks announced) when the execution ends, also when it ends by panic.
//!
//! Hash-seed entropy and syscall behaviour are owned by `libsimenv.so` (LD_PRELOAD), not here.

use crossbeam_channel::events;
use std::io::Write;
use std::sync::Mutex;

static RESULT: Mutex<Option<String>> = Mutex::new(None);
static MODULES: Mutex<Vec<String>> = Mutex::new(Vec::new());

/// Called by the guarded hook in `main.rs` right before a check is executed.
pub fn module_started(name: &str) {
    MODULES.lock().unwrap().push(name.to_string());
    events::record(events::Op::Custom(1), MODULES.lock().unwrap().len() as u32);
}

fn write_events(trace: &[u32], rands: &[u64], panicked: bool) {
    let Ok(path) = std::env::var("SIM_EVENTS") else {
        return;
    };
    let evs = events::take();
    let modules = MODULES.lock().unwrap().clone();
    let mut out = String::new();
    out.push_str("{\"modules\":[");
    out.push_str(
        &modules
            .iter()
            .map(|m| format!("\"{m}\""))
            .collect::<Vec<_>>()
            .join(","),
    );
    out.push_str("],\"sched_steps\":");
    out.push_str(&trace.len().to_string());
    out.push_str(",\"trace\":[");
    out.push_str(&trace.iter().map(|t| t.to_string()).collect::<Vec<_>>().join(","));
    out.push_str("],\"rands\":[");
    out.push_str(&rands.iter().map(|t| t.to_string()).collect::<Vec<_>>().join(","));
    out.push_str("],\"events\":");
    out.push_str(&evs.len().to_string());
    out.push_str(",\"event_hash\":\"");
    out.push_str(&format!("{:016x}", events::hash(&evs)));
    out.push_str("\",\"tasks\":");
    let tasks = evs
        .iter()
        .map(|e| e.task)
        .filter(|t| *t != u32::MAX)
        .max()
        .map_or(0, |t| t + 1);
    out.push_str(&tasks.to_string());
    let count = |op: events::Op| evs.iter().filter(|e| e.op == op).count();
    out.push_str(&format!(
        ",\"sends\":{},\"recvs\":{},\"recv_blocked\":{},\"channels\":{},\"panicked\":{}}}\n",
        count(events::Op::Send),
        count(events::Op::Recv),
        count(events::Op::RecvBlocked),
        count(events::Op::NewChannel),
        panicked
    ));
    if let Ok(mut f) = std::fs::File::create(path) {
        let _ = f.write_all(out.as_bytes());
    }
}

pub fn run_simulated<E, F>(f: F) -> Result<(), E>
where
    E: std::fmt::Debug + Send + 'static,
    F: Fn() -> Result<(), E> + Send + Sync + 'static,
{
    let spec = std::env::var("SIM_SCHED")
        .ok()
        .map(|s| {
            simcommon::SchedSpec::parse(&s).unwrap_or_else(|| {
                eprintln!("simulator: bad SIM_SCHED '{s}'");
                std::process::exit(2)
            })
        })
        .unwrap_or(simcommon::SchedSpec::Sticky);
    let (scheduler, trace) = simcommon::SimScheduler::new(spec);
    let mut cfg = shuttle::Config::new();
    cfg.stack_size = std::env::var("SIM_STACK_MB").ok().and_then(|s| s.parse::<usize>().ok()).unwrap_or(256) << 20;
    cfg.max_steps = shuttle::MaxSteps::FailAfter(50_000_000);
    cfg.failure_persistence = shuttle::FailurePersistence::None;
    cfg.silence_warnings = true;
    events::reset();
    let body = move || {
        if let Err(e) = f() {
            *RESULT.lock().unwrap() = Some(format!("{e:?}"));
        }
    };
    let outcome = std::panic::catch_unwind(std::panic::AssertUnwindSafe(|| {
        shuttle::Runner::new(scheduler, cfg).run(body);
    }));
    let taken = trace.snapshot();
    write_events(&taken, &trace.rands(), outcome.is_err());
    if let Err(payload) = outcome {
        // same observable behaviour as a panicking `main`: message already printed by the hook
        std::panic::resume_unwind(payload);
    }
    if let Some(e) = RESULT.lock().unwrap().take() {
        // same observable behaviour as `main` returning `Err`
        eprintln!("Error: {e}");
        std::process::exit(1);
    }
    Ok(())
}
