//! splitmix64: the only source of randomness of the simulator.

pub fn mix(z: u64) -> u64 {
    let mut z = z.wrapping_add(0x9E37_79B9_7F4A_7C15);
    z = (z ^ (z >> 30)).wrapping_mul(0xBF58_476D_1CE4_E5B9);
    z = (z ^ (z >> 27)).wrapping_mul(0x94D0_49BB_1331_11EB);
    z ^ (z >> 31)
}

pub fn fnv64(bytes: &[u8]) -> u64 {
    let mut h: u64 = 0xcbf2_9ce4_8422_2325;
    for b in bytes {
        h ^= *b as u64;
        h = h.wrapping_mul(0x0000_0100_0000_01b3);
    }
    h
}

#[derive(Clone, Debug)]
pub struct Rng(pub u64);

impl Rng {
    pub fn new(seed: u64) -> Self {
        Rng(mix(seed ^ 0x5151_5151))
    }
    pub fn next(&mut self) -> u64 {
        self.0 = self.0.wrapping_add(0x9E37_79B9_7F4A_7C15);
        let mut z = self.0;
        z = (z ^ (z >> 30)).wrapping_mul(0xBF58_476D_1CE4_E5B9);
        z = (z ^ (z >> 27)).wrapping_mul(0x94D0_49BB_1331_11EB);
        z ^ (z >> 31)
    }
    /// Uniform in `0..n` (n > 0).
    pub fn below(&mut self, n: u64) -> u64 {
        debug_assert!(n > 0);
        self.next() % n
    }
    /// Uniform in `lo..=hi`.
    pub fn range(&mut self, lo: u64, hi: u64) -> u64 {
        lo + self.below(hi - lo + 1)
    }
    pub fn chance(&mut self, percent: u64) -> bool {
        self.below(100) < percent
    }
    pub fn pick<'a, T>(&mut self, xs: &'a [T]) -> &'a T {
        &xs[self.below(xs.len() as u64) as usize]
    }
    pub fn shuffle<T>(&mut self, xs: &mut [T]) {
        for i in (1..xs.len()).rev() {
            let j = self.below(i as u64 + 1) as usize;
            xs.swap(i, j);
        }
    }
    pub fn fork(&mut self) -> Rng {
        Rng::new(self.next())
    }
}
