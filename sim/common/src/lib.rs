//! Shared pieces of the deterministic simulator: the one PRNG, the seeded/replayable
//! scheduler, hashing, and evidence writing.

pub mod evidence;
pub mod rng;
#[cfg(feature = "sched")]
pub mod sched;

pub use rng::{fnv64, mix, Rng};
#[cfg(feature = "sched")]
pub use sched::{SchedSpec, SimScheduler};

/// Seed of a campaign (`VERIF_SEED`, default 1: fixed so the unchanged tree never alarms by chance).
pub fn verif_seed() -> u64 {
    std::env::var("VERIF_SEED")
        .ok()
        .and_then(|s| s.trim().parse::<u64>().ok())
        .unwrap_or(1)
}

/// Derive the seed of stream `stream` of run `run` of campaign `tag`.
/// Separate streams keep knobs independent: adding a knob never shifts the others.
pub fn derive(seed: u64, tag: &str, run: u64, stream: u64) -> u64 {
    let mut h = mix(seed ^ fnv64(tag.as_bytes()));
    h = mix(h ^ run.wrapping_mul(0x9E37_79B9_7F4A_7C15));
    mix(h ^ stream.wrapping_mul(0xD1B5_4A32_D192_ED03))
}
