#!/bin/bash
# usage: sweep2.sh from to  -- sim-caller with entropy/sched/io perturbation, all checks
export XDG_CONFIG_HOME=/tmp/feas/cli/xdg
ALL=CWE78,CWE119,CWE134,CWE190,CWE215,CWE243,CWE252,CWE332,CWE337,CWE367,CWE416,CWE426,CWE467,CWE476,CWE560,CWE676,CWE782,CWE789,Memory
S=/tmp/feas/shadow/target/release/cwe_checker_sim
mkdir -p /tmp/feas/cli/ws2
for w in $(seq $1 $2); do
  python3 gen.py $w /tmp/feas/cli/ws2/w$w
  ref=""
  for e in 0 1 2 3; do
    out=$(SIM_ENTROPY=$e SIM_SCHED=$e SIM_IO=$e LD_PRELOAD=/tmp/feas/hs/ioshim.so timeout 120 $S /tmp/feas/cli/ws2/w$w.elf --pcode-raw /tmp/feas/cli/ws2/w$w.json --json --quiet --partial $ALL 2>/tmp/feas/cli/ws2/w$w.e$e.err; echo "exit=$?")
    h=$(echo "$out" | md5sum | cut -c1-8)
    if [ -z "$ref" ]; then ref=$h; elif [ "$ref" != "$h" ]; then echo "DIFF w=$w e=$e"; fi
    if ! echo "$out" | tail -1 | grep -q "exit=0"; then echo "FAIL w=$w e=$e $(echo "$out" | tail -1) $(grep -A1 'panicked at' /tmp/feas/cli/ws2/w$w.e$e.err | head -2 | tr '\n' ' ' | sed 's/thread .main. ([0-9]*)//')"; else rm -f /tmp/feas/cli/ws2/w$w.e$e.err; fi
  done
  rm -f /tmp/feas/cli/ws2/w$w.json /tmp/feas/cli/ws2/w$w.elf
done
