//! Process entry of the simulated CLI (`cwe_checker_sim`): runs the unchanged program body as
//! one execution of the simulator.
//!
//! One-shot mode (default): one process = one run. Knobs come from the environment:
//! * `SIM_SCHED`  — schedule spec (`sticky`, `rr`, `random:<seed>`, `pct:<seed>:<depth>:<span>`,
//!   `trace:<ids>:<rands>`), see `simcommon::sched`; default `sticky`.
//! * `SIM_EVENTS` — file that receives the event log summary (schedule taken, channel events,
//!   checks announced) when the execution ends, also when it ends by panic.
//! Hash-seed entropy and syscall behaviour are owned by `libsimenv.so` (LD_PRELOAD).
//!
//! Server mode (`SIM_SERVER=1`): one process serves many runs, one after the other, to avoid the
//! cost of process creation. Each request (one JSON line on stdin) names argv, the SIM_* knobs and
//! the files that receive stdout/stderr of the run. Every run executes on a fresh OS thread (fresh
//! per-thread hash keys, drawn from the re-seeded entropy stream) with file descriptors 1 and 2
//! redirected, so its observables equal those of a one-shot process. The campaign driver confirms
//! every anomaly in one-shot mode before it is reported; the self-test compares the two modes.

use crossbeam_channel::events;
use std::ffi::{c_char, c_int, c_void, CString, OsString};
use std::io::{BufRead, Write};
use std::sync::{Arc, Mutex};

static RESULT: Mutex<Option<String>> = Mutex::new(None);
static MODULES: Mutex<Vec<String>> = Mutex::new(Vec::new());
static ARGS: Mutex<Option<Vec<OsString>>> = Mutex::new(None);

/// Called by the guarded hook in `main.rs` right before a check is executed.
pub fn module_started(name: &str) {
    let n = {
        let mut m = MODULES.lock().unwrap();
        m.push(name.to_string());
        m.len()
    };
    events::record(events::Op::Custom(1), n as u32);
}

/// The command line of the current run: the process arguments in one-shot mode, the arguments of
/// the current request in server mode.
pub fn args() -> Vec<OsString> {
    match ARGS.lock().unwrap().as_ref() {
        Some(a) => a.clone(),
        None => std::env::args_os().collect(),
    }
}

fn events_json(trace: &[u32], rands: &[u64], panicked: bool) -> String {
    let evs = events::take();
    let modules = MODULES.lock().unwrap().clone();
    let mut out = String::new();
    out.push_str("{\"modules\":[");
    out.push_str(&modules.iter().map(|m| format!("\"{m}\"")).collect::<Vec<_>>().join(","));
    out.push_str("],\"sched_steps\":");
    out.push_str(&trace.len().to_string());
    out.push_str(",\"trace\":[");
    out.push_str(&trace.iter().map(|t| t.to_string()).collect::<Vec<_>>().join(","));
    out.push_str("],\"rands\":[");
    out.push_str(&rands.iter().map(|t| t.to_string()).collect::<Vec<_>>().join(","));
    out.push_str("],\"events\":");
    out.push_str(&evs.len().to_string());
    out.push_str(",\"event_hash\":\"");
    out.push_str(&format!("{:016x}", events::hash(&evs)));
    out.push_str("\",\"tasks\":");
    let tasks = evs.iter().map(|e| e.task).filter(|t| *t != u32::MAX).max().map_or(0, |t| t + 1);
    out.push_str(&tasks.to_string());
    let count = |op: events::Op| evs.iter().filter(|e| e.op == op).count();
    out.push_str(&format!(
        ",\"sends\":{},\"recvs\":{},\"recv_blocked\":{},\"channels\":{},\"panicked\":{}}}",
        count(events::Op::Send),
        count(events::Op::Recv),
        count(events::Op::RecvBlocked),
        count(events::Op::NewChannel),
        panicked
    ));
    out
}

enum Outcome {
    Ok,
    Error(String),
    Panic(Box<dyn std::any::Any + Send>),
}

/// One execution of the program body under the given schedule.
fn execute<E, F>(f: Arc<F>, spec: simcommon::SchedSpec) -> (Outcome, String)
where
    E: std::fmt::Debug + Send + 'static,
    F: Fn() -> Result<(), E> + Send + Sync + 'static,
{
    let (scheduler, trace) = simcommon::SimScheduler::new(spec);
    let mut cfg = shuttle::Config::new();
    cfg.stack_size = std::env::var("SIM_STACK_MB").ok().and_then(|s| s.parse::<usize>().ok()).unwrap_or(256) << 20;
    cfg.max_steps = shuttle::MaxSteps::FailAfter(50_000_000);
    cfg.failure_persistence = shuttle::FailurePersistence::None;
    cfg.silence_warnings = true;
    events::reset();
    MODULES.lock().unwrap().clear();
    *RESULT.lock().unwrap() = None;
    let body = move || {
        if let Err(e) = f() {
            *RESULT.lock().unwrap() = Some(format!("{e:?}"));
        }
    };
    let outcome = std::panic::catch_unwind(std::panic::AssertUnwindSafe(|| {
        shuttle::Runner::new(scheduler, cfg).run(body);
    }));
    let ev = events_json(&trace.snapshot(), &trace.rands(), outcome.is_err());
    match outcome {
        Err(payload) => (Outcome::Panic(payload), ev),
        Ok(()) => match RESULT.lock().unwrap().take() {
            Some(e) => (Outcome::Error(e), ev),
            None => (Outcome::Ok, ev),
        },
    }
}

fn parse_spec(s: &str) -> simcommon::SchedSpec {
    simcommon::SchedSpec::parse(s).unwrap_or_else(|| {
        eprintln!("simulator: bad schedule spec '{s}'");
        std::process::exit(2)
    })
}

pub fn run_simulated<E, F>(f: F) -> Result<(), E>
where
    E: std::fmt::Debug + Send + 'static,
    F: Fn() -> Result<(), E> + Send + Sync + 'static,
{
    let f = Arc::new(f);
    if std::env::var("SIM_SERVER").is_ok() {
        server_loop(f);
    }
    let spec = std::env::var("SIM_SCHED").ok().map(|s| parse_spec(&s)).unwrap_or(simcommon::SchedSpec::Sticky);
    let (outcome, ev) = execute(f, spec);
    // the simulator's own bookkeeping I/O is not part of the run: no faults, no accounting
    let _ = std::io::stdout().flush();
    let pause = sym("simenv_pause");
    if !pause.is_null() {
        let pause: PauseFn = unsafe { std::mem::transmute(pause) };
        unsafe { pause() };
    }
    if let Ok(path) = std::env::var("SIM_EVENTS") {
        if let Ok(mut file) = std::fs::File::create(path) {
            let _ = file.write_all(ev.as_bytes());
            let _ = file.write_all(b"\n");
        }
    }
    match outcome {
        // same observable behaviour as a panicking `main`: the message was printed by the panic hook
        Outcome::Panic(payload) => std::panic::resume_unwind(payload),
        // same observable behaviour as `main` returning `Err`
        Outcome::Error(e) => {
            eprintln!("Error: {e}");
            std::process::exit(1);
        }
        Outcome::Ok => Ok(()),
    }
}

// ---- server mode ---------------------------------------------------------------------------------

extern "C" {
    fn dup(fd: c_int) -> c_int;
    fn dup2(old: c_int, new: c_int) -> c_int;
    fn close(fd: c_int) -> c_int;
    fn open(path: *const c_char, flags: c_int, mode: c_int) -> c_int;
    fn dlsym(handle: *mut c_void, symbol: *const c_char) -> *mut c_void;
}

type ResetFn = unsafe extern "C" fn(*const c_char, *const c_char);
type PauseFn = unsafe extern "C" fn();
type StatsFn = unsafe extern "C" fn(*mut c_char, usize) -> c_int;

fn sym(name: &str) -> *mut c_void {
    let c = CString::new(name).unwrap();
    unsafe { dlsym(std::ptr::null_mut(), c.as_ptr()) }
}

/// Minimal extraction of a string / string-array field from a flat JSON request line
/// (the driver writes these lines itself; values never contain escaped quotes except `\"` and `\\`).
fn json_str(line: &str, key: &str) -> Option<String> {
    let pat = format!("\"{key}\":\"");
    let i = line.find(&pat)? + pat.len();
    let mut out = String::new();
    let mut chars = line[i..].chars();
    while let Some(c) = chars.next() {
        match c {
            '\\' => {
                if let Some(n) = chars.next() {
                    out.push(n);
                }
            }
            '"' => return Some(out),
            c => out.push(c),
        }
    }
    None
}

fn json_str_array(line: &str, key: &str) -> Option<Vec<String>> {
    let pat = format!("\"{key}\":[");
    let i = line.find(&pat)? + pat.len();
    let mut out = Vec::new();
    let mut cur = String::new();
    let mut in_str = false;
    let mut chars = line[i..].chars();
    while let Some(c) = chars.next() {
        if in_str {
            match c {
                '\\' => {
                    if let Some(n) = chars.next() {
                        cur.push(n);
                    }
                }
                '"' => {
                    in_str = false;
                    out.push(std::mem::take(&mut cur));
                }
                c => cur.push(c),
            }
        } else {
            match c {
                '"' => in_str = true,
                ']' => return Some(out),
                _ => {}
            }
        }
    }
    None
}

fn server_loop<E, F>(f: Arc<F>) -> !
where
    E: std::fmt::Debug + Send + 'static,
    F: Fn() -> Result<(), E> + Send + Sync + 'static,
{
    let reset = sym("simenv_reset");
    let pause = sym("simenv_pause");
    let stats = sym("simenv_stats");
    if reset.is_null() || pause.is_null() || stats.is_null() {
        eprintln!("simulator: server mode needs libsimenv.so");
        std::process::exit(2);
    }
    let reset: ResetFn = unsafe { std::mem::transmute(reset) };
    let pause: PauseFn = unsafe { std::mem::transmute(pause) };
    let stats: StatsFn = unsafe { std::mem::transmute(stats) };
    unsafe { pause() };
    // responses go to the original stdout; fds 1 and 2 are redirected per run
    let resp_fd = unsafe { dup(1) };
    let err_fd = unsafe { dup(2) };
    let mut resp = unsafe { <std::fs::File as std::os::fd::FromRawFd>::from_raw_fd(resp_fd) };
    let stdin = std::io::stdin();
    let mut line = String::new();
    loop {
        line.clear();
        if stdin.lock().read_line(&mut line).unwrap_or(0) == 0 {
            std::process::exit(0);
        }
        let argv = json_str_array(&line, "argv").unwrap_or_default();
        let entropy = json_str(&line, "entropy").unwrap_or_else(|| "0".into());
        let sched = json_str(&line, "sched").unwrap_or_else(|| "sticky".into());
        let io = json_str(&line, "io").unwrap_or_else(|| "0".into());
        let out_path = json_str(&line, "stdout").unwrap_or_default();
        let err_path = json_str(&line, "stderr").unwrap_or_default();
        let open_to = |path: &str, fd: c_int| {
            let c = CString::new(path).unwrap();
            // O_WRONLY | O_CREAT | O_TRUNC
            let nfd = unsafe { open(c.as_ptr(), 0o1 | 0o100 | 0o1000, 0o644) };
            if nfd >= 0 {
                unsafe {
                    dup2(nfd, fd);
                    close(nfd);
                }
            }
        };
        open_to(&out_path, 1);
        open_to(&err_path, 2);
        let mut full: Vec<OsString> = vec![OsString::from("cwe_checker_sim")];
        full.extend(argv.iter().map(OsString::from));
        *ARGS.lock().unwrap() = Some(full);
        let spec = parse_spec(&sched);
        let (c_ent, c_io) = (CString::new(entropy).unwrap(), CString::new(io).unwrap());
        let f2 = f.clone();
        // fresh OS thread: fresh per-thread hash keys, drawn after the entropy stream was re-seeded
        let handle = std::thread::Builder::new()
            .name("main".into())
            .spawn(move || {
                unsafe { reset(c_ent.as_ptr(), c_io.as_ptr()) };
                let (outcome, ev) = execute(f2, spec);
                let code = match outcome {
                    Outcome::Ok => 0,
                    Outcome::Error(e) => {
                        eprintln!("Error: {e}");
                        1
                    }
                    Outcome::Panic(_) => 101,
                };
                let _ = std::io::stdout().flush();
                (code, ev)
            })
            .unwrap();
        let (code, ev) = handle.join().unwrap_or((101, "null".to_string()));
        let mut buf = vec![0u8; 1 << 17];
        let n = unsafe { stats(buf.as_mut_ptr() as *mut c_char, buf.len()) };
        unsafe { pause() };
        let stats_json = String::from_utf8_lossy(&buf[..n.max(0) as usize]).to_string();
        unsafe {
            dup2(resp_fd, 1);
            dup2(err_fd, 2);
        }
        let _ = writeln!(resp, "{{\"exit\":{code},\"events\":{ev},\"stats\":{stats_json}}}");
        let _ = resp.flush();
    }
}
