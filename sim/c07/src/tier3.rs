//! C07 tier 3 — the backward interprocedural wrapper on the reversed real CFG.
//!
//! Same programs, lattice and per-site monotone functions as tier 2; the real
//! `backward_interprocedural_fixpoint::{GeneralizedContext, create_computation*}` is solved under
//! the default, bottom-up, top-down, reverse and random orders with pre-emption and compared with an
//! independent interpretation of the reversed edge kinds (documented meaning in `graph.rs` and in the
//! backward module; the reference does not call `GeneralizedContext::update_edge`).

use crate::tier2::{build_program, join, site_fn, to_ref, Order2, RefVal, Scenario2, Stats2};
use crate::{viol, BudgetExceeded, Violation};
use cwe_checker_lib::analysis::backward_interprocedural_fixpoint::{
    create_computation, create_computation_with_bottom_up_worklist_order, create_computation_with_top_down_worklist_order, Context, GeneralizedContext,
};
use cwe_checker_lib::analysis::fixpoint::Computation;
use cwe_checker_lib::analysis::graph::{get_program_cfg, Edge, Graph, Node};
use cwe_checker_lib::analysis::interprocedural_fixpoint_generic::NodeValue;
use cwe_checker_lib::intermediate_representation::*;
use petgraph::graph::NodeIndex;
use petgraph::visit::EdgeRef;
use simcommon::Rng;
use std::cell::Cell;
use std::panic::{catch_unwind, AssertUnwindSafe};

struct MockBack<'a> {
    graph: &'a Graph<'a>,
    table_seed: u64,
    bits: u8,
    needs_both: bool,
    calls: Cell<u64>,
    budget: u64,
}

impl<'a> MockBack<'a> {
    fn f(&self, site: &str, v: u8) -> Option<u8> {
        let t = self.calls.get() + 1;
        self.calls.set(t);
        if t > self.budget {
            std::panic::panic_any(BudgetExceeded);
        }
        site_fn(self.table_seed, site, self.bits).apply(v)
    }
    fn callsite(&self, target: Option<u8>, ret: Option<u8>, caller: &Term<Sub>, call: &Term<Jmp>, return_: &Term<Jmp>) -> Option<u8> {
        let site = format!("bcallsite:{}:{}:{}", caller.tid, call.tid, return_.tid);
        if self.needs_both {
            match (target, ret) {
                (Some(t), Some(r)) => {
                    let x = self.f(&format!("{site}:t"), t)?;
                    let y = self.f(&format!("{site}:r"), r)?;
                    Some(x | y)
                }
                _ => None,
            }
        } else {
            let x = target.and_then(|v| self.f(&format!("{site}:t"), v));
            let y = ret.and_then(|v| self.f(&format!("{site}:r"), v));
            match (x, y) {
                (None, None) => None,
                (a, b) => Some(a.unwrap_or(0) | b.unwrap_or(0)),
            }
        }
    }
}

impl<'a> Context<'a> for MockBack<'a> {
    type Value = u8;
    fn get_graph(&self) -> &Graph<'a> {
        self.graph
    }
    fn merge(&self, a: &u8, b: &u8) -> u8 {
        a | b
    }
    fn update_def(&self, v: &u8, def: &Term<Def>) -> Option<u8> {
        self.f(&format!("bdef:{}", def.tid), *v)
    }
    fn update_jumpsite(&self, v: &u8, jump: &Term<Jmp>, untaken: Option<&Term<Jmp>>, jumpsite: &Term<Blk>) -> Option<u8> {
        self.f(&format!("bjmp:{}:{}:{}", jump.tid, untaken.map_or("-".to_string(), |u| u.tid.to_string()), jumpsite.tid), *v)
    }
    fn update_callsite(&self, target: Option<&u8>, ret: Option<&u8>, caller: &Term<Sub>, call: &Term<Jmp>, return_: &Term<Jmp>) -> Option<u8> {
        self.callsite(target.copied(), ret.copied(), caller, call, return_)
    }
    fn split_call_stub(&self, v: &u8) -> Option<u8> {
        self.f("bsplit_call", *v)
    }
    fn split_return_stub(&self, v: &u8, sub: &Term<Sub>) -> Option<u8> {
        self.f(&format!("bsplit_ret:{}", sub.tid), *v)
    }
    fn update_call_stub(&self, v: &u8, call: &Term<Jmp>) -> Option<u8> {
        self.f(&format!("bstub:{}", call.tid), *v)
    }
    fn specialize_conditional(&self, v: &u8, _c: &Expression, is_true: bool) -> Option<u8> {
        self.f(&format!("bcond:{is_true}"), *v)
    }
}

/// Independent interpretation of one edge of the reversed CFG.
fn ref_edge(ctx: &MockBack, graph: &Graph, e: petgraph::graph::EdgeIndex, val: RefVal) -> Option<RefVal> {
    let (s, t) = graph.edge_endpoints(e).unwrap();
    let v = |val: RefVal| match val {
        RefVal::V(x) => x,
        _ => panic!("reference: combinator value at a plain node"),
    };
    match &graph[e] {
        Edge::Block => {
            let blk = graph[s].get_block();
            let mut acc = v(val);
            for d in blk.term.defs.iter().rev() {
                acc = ctx.f(&format!("bdef:{}", d.tid), acc)?;
            }
            Some(RefVal::V(acc))
        }
        Edge::Jump(jump, untaken) => {
            let site = graph[t].get_block();
            ctx.f(&format!("bjmp:{}:{}:{}", jump.tid, untaken.map_or("-".to_string(), |u| u.tid.to_string()), site.tid), v(val)).map(RefVal::V)
        }
        Edge::ReturnCombine(_) => Some(RefVal::V(v(val))),
        // value at the callee's entry flows to the call site as the interprocedural part
        Edge::Call(_) => Some(RefVal::Comb(None, Some(v(val)))),
        // value at the return site flows around the call as the call-stub part (possibly nothing of it)
        Edge::CrCallStub => Some(RefVal::Comb(ctx.f("bsplit_call", v(val)), None)),
        Edge::CrReturnStub => {
            let sub = match &graph[t] {
                Node::BlkEnd(_, sub) => sub,
                _ => panic!("reference: CrReturnStub does not end in a BlkEnd node"),
            };
            ctx.f(&format!("bsplit_ret:{}", sub.tid), v(val)).map(RefVal::V)
        }
        Edge::CallCombine(return_term) => match val {
            RefVal::Comb(call_stub, interproc) => {
                let (call_block, caller_sub) = match &graph[s] {
                    Node::CallSource { source, .. } => *source,
                    _ => panic!("reference: CallCombine does not leave a CallSource node"),
                };
                ctx.callsite(interproc, call_stub, caller_sub, &call_block.term.jmps[0], return_term).map(RefVal::V)
            }
            _ => panic!("reference: plain value at a CallSource node"),
        },
        Edge::ExternCallStub(call) => ctx.f(&format!("bstub:{}", call.tid), v(val)).map(RefVal::V),
    }
}

pub fn run_backward(sc: &Scenario2) -> Result<Stats2, Violation> {
    let program = build_program(sc);
    let mut graph = get_program_cfg(&program);
    graph.reverse();
    let n = graph.node_count();
    let budget = 400 * (sc.bits as u64 + 2) * (n as u64 + graph.edge_count() as u64 + 1) * (sc.slices.len() as u64 + 2);
    let mut stats = Stats2 { nodes: n, ..Default::default() };
    let mk = || MockBack { graph: &graph, table_seed: sc.table_seed, bits: sc.bits, needs_both: sc.return_needs_both, calls: Cell::new(0), budget };
    // start nodes of a backward analysis: the ends of the blocks of function `f` that return
    // (or, if none returns, the end of its last block)
    let starts_of = |f: usize| -> Vec<NodeIndex> {
        let sub_tid = Tid::new(format!("sub_{f}"));
        let ends: Vec<NodeIndex> = graph.node_indices().filter(|i| matches!(&graph[*i], Node::BlkEnd(_, s) if s.tid == sub_tid)).collect();
        let returning: Vec<NodeIndex> = ends.iter().copied().filter(|i| graph[*i].get_block().term.jmps.iter().any(|j| matches!(j.term, Jmp::Return(_)))).collect();
        if returning.is_empty() { ends.into_iter().rev().take(1).collect() } else { returning }
    };
    // reference
    let rctx = mk();
    let mut refv: Vec<Option<RefVal>> = graph.node_indices().map(|_| sc.default.map(RefVal::V)).collect();
    for (f, v) in &sc.start {
        for s in starts_of(*f) {
            refv[s.index()] = Some(RefVal::V(*v));
        }
    }
    let mut rounds = 0;
    loop {
        let mut changed = false;
        for e in graph.edge_references() {
            if let Some(sv) = refv[e.source().index()] {
                if let Some(x) = ref_edge(&rctx, &graph, e.id(), sv) {
                    let t = &mut refv[e.target().index()];
                    let new = t.map_or(x, |o| join(o, x));
                    if *t != Some(new) {
                        *t = Some(new);
                        changed = true;
                    }
                }
            }
        }
        if !changed {
            break;
        }
        rounds += 1;
        if rounds > 10_000 {
            eprintln!("HARNESS ERROR: backward reference solver does not converge");
            std::process::exit(2);
        }
    }
    stats.ref_rounds = rounds;
    stats.call_return_nodes_with_both = refv.iter().filter(|v| matches!(v, Some(RefVal::Comb(Some(_), Some(_))))).count() as u32;

    let ctx = mk();
    let mut comp: Computation<GeneralizedContext<MockBack>> = match &sc.order {
        Order2::Default => create_computation(ctx, sc.default),
        Order2::BottomUp => create_computation_with_bottom_up_worklist_order(ctx, sc.default),
        Order2::TopDown => create_computation_with_top_down_worklist_order(ctx, sc.default),
        Order2::Reverse => Computation::from_node_priority_list(GeneralizedContext::new(ctx), sc.default.map(NodeValue::Value), graph.node_indices().rev().collect()),
        Order2::Random(seed) => {
            let mut p: Vec<NodeIndex> = graph.node_indices().collect();
            Rng::new(*seed).shuffle(&mut p);
            Computation::from_node_priority_list(GeneralizedContext::new(ctx), sc.default.map(NodeValue::Value), p)
        }
    };
    for (f, v) in &sc.start {
        for s in starts_of(*f) {
            comp.set_node_value(s, NodeValue::Value(*v));
        }
    }
    let result = catch_unwind(AssertUnwindSafe(|| {
        for b in &sc.slices {
            comp.compute_with_max_steps(*b);
            if !comp.has_stabilized() {
                stats.bound_hit = true;
            }
        }
        comp.compute();
    }));
    stats.callbacks = comp.get_context().get_context().calls.get();
    if let Err(payload) = result {
        if payload.downcast_ref::<BudgetExceeded>().is_some() {
            return Err(viol("non_termination", format!("backward: more than {budget} transfer evaluations")));
        }
        let msg = payload.downcast_ref::<String>().cloned().or_else(|| payload.downcast_ref::<&str>().map(|s| s.to_string())).unwrap_or_else(|| "panic".into());
        return Err(viol("panic", format!("backward: {msg}")));
    }
    if !comp.has_stabilized() {
        return Err(viol("not_stabilized_after_compute", "backward: compute() returned with a non-empty worklist".into()));
    }
    for i in graph.node_indices() {
        let got = comp.get_node_value(i).map(to_ref);
        if got != refv[i.index()] {
            return Err(viol(
                "backward_differs_from_least_solution",
                format!("node {} ({}): solver {:?}, least solution {:?}, order {:?}", i.index(), graph[i], got, refv[i.index()], sc.order),
            ));
        }
    }
    Ok(stats)
}
