#!/bin/bash
# Confirm a seeded change in its scratch worktree: applies cleanly, compiles, the unedited test suite
# passes with it, and its demonstration fails with it and passes without it.
# usage: confirm_seed.sh <worktree> <seed dir> <demo test name (cargo --test) or shell command>
set -u
wt="$1"; sd="$2"; demo="$3"
cd "$wt" || exit 2
git checkout -q -- . ; git clean -fdq src 2>/dev/null
git apply --check "$sd/patch.diff" && echo "applies: yes" || { echo "applies: NO"; exit 1; }
git apply "$sd/patch.diff"
cargo test --workspace --offline 2>&1 | grep -E "^test result|FAILED|error(\[|:)" | sort | uniq -c | head -8
[ -f "$sd/demo.diff" ] && git apply "$sd/demo.diff"
echo "--- demo WITH change:"; bash -c "$demo" 2>&1 | grep -E "^test result|panicked|FAILED|PASS|FAIL|passed|failed" | head -5
git checkout -q -- . ; 
echo "--- demo WITHOUT change:"; bash -c "$demo" 2>&1 | grep -E "^test result|panicked|FAILED|PASS|FAIL|passed|failed" | head -5
git checkout -q -- . ; git clean -fdq src 2>/dev/null
