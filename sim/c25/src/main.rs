//! C25 engine A — log collection under simulator-chosen thread interleavings.
//!
//! Real code: `LogThread::{spawn, get_msg_sender, collect, drop, collect_and_deduplicate,
//! create_disconnected_sender}` from /repo. Simulated: thread creation/join (shuttle, through the
//! guarded `verif_std` alias in `utils/log.rs`), the channel (stand-in with the crossbeam contract),
//! and the scheduler (`SimScheduler`: every decision from one seed, recorded, replayable).

mod scenario;

use crossbeam_channel::events;
use scenario::{check, execute, gen, Ev, Mode, Output, Scenario};
use serde::{Deserialize, Serialize};
use simcommon::{derive, Rng, SchedSpec, SimScheduler};
use std::collections::{BTreeMap, HashSet};
use std::panic::{catch_unwind, AssertUnwindSafe};
use std::sync::{Arc, Mutex};

#[derive(Clone, Debug, Serialize, Deserialize, PartialEq, Eq)]
pub struct Violation {
    pub class: String,
    pub detail: String,
}

pub struct RunResult {
    pub hist: Vec<Ev>,
    pub out: Option<Output>,
    pub trace: Vec<u32>,
    pub replay_spec: SchedSpec,
    pub event_hash: u64,
    pub events: usize,
    pub verdict: Result<(), Violation>,
}

thread_local! {
    static LAST_PANIC: std::cell::RefCell<String> = const { std::cell::RefCell::new(String::new()) };
}

pub fn run_one(sc: &Scenario, spec: &SchedSpec) -> RunResult {
    let hist = Arc::new(Mutex::new(Vec::new()));
    let out = Arc::new(Mutex::new(None));
    let (sched, trace) = SimScheduler::new(spec.clone());
    let mut cfg = shuttle::Config::new();
    cfg.max_steps = shuttle::MaxSteps::FailAfter(10_000);
    cfg.failure_persistence = shuttle::FailurePersistence::None;
    cfg.silence_warnings = true;
    cfg.stack_size = 0x20000;
    events::reset();
    let (sc2, h2, o2) = (sc.clone(), hist.clone(), out.clone());
    LAST_PANIC.with(|p| p.borrow_mut().clear());
    let res = catch_unwind(AssertUnwindSafe(|| {
        shuttle::Runner::new(sched, cfg).run(move || {
            let o = execute(&sc2, h2.clone());
            *o2.lock().unwrap() = o;
        });
    }));
    let evs = events::take();
    let hist = hist.lock().unwrap().clone();
    let out = out.lock().unwrap().clone();
    let verdict = match res {
        Err(payload) => {
            let msg = payload
                .downcast_ref::<String>()
                .cloned()
                .or_else(|| payload.downcast_ref::<&str>().map(|s| s.to_string()))
                .unwrap_or_else(|| LAST_PANIC.with(|p| p.borrow().clone()));
            let class = if msg.contains("deadlock") {
                "deadlock"
            } else if msg.contains("max_steps") || msg.contains("exceeded") {
                "step_budget_exceeded"
            } else {
                "panic"
            };
            Err(Violation { class: class.into(), detail: msg.lines().next().unwrap_or("").chars().take(300).collect() })
        }
        Ok(()) => check(sc, &hist, &out).map_err(|(class, detail)| Violation { class, detail }),
    };
    RunResult { hist, out, trace: trace.snapshot(), replay_spec: trace.as_spec(), event_hash: events::hash(&evs), events: evs.len(), verdict }
}

fn fails_with(sc: &Scenario, class: &str, seeds: &[SchedSpec]) -> Option<SchedSpec> {
    for spec in seeds {
        let r = run_one(sc, spec);
        if matches!(&r.verdict, Err(v) if v.class == class) {
            return Some(r.replay_spec);
        }
    }
    None
}

/// Shrink the scenario, then the schedule, while the same violation class persists.
/// Shrinking a workload changes the schedule a seed produces, so each candidate is re-searched over
/// a fixed block of schedules (the failing trace first) and the failing trace is kept with it.
fn minimise(sc: &Scenario, spec: &SchedSpec, class: &str, seed: u64) -> (Scenario, SchedSpec) {
    let mut cur = sc.clone();
    let mut cur_spec = spec.clone();
    let block = |cur_spec: &SchedSpec| -> Vec<SchedSpec> {
        let mut v = vec![cur_spec.clone(), SchedSpec::Sticky, SchedSpec::RoundRobin];
        for k in 0..96 {
            v.push(SchedSpec::from_seed(derive(seed, "C25.min", k, 0)));
        }
        v
    };
    let mut progress = true;
    while progress {
        progress = false;
        // drop whole producers
        let mut p = 0;
        while p < cur.producers.len() {
            let mut c = cur.clone();
            c.producers.remove(p);
            if let Some(s) = fails_with(&c, class, &block(&cur_spec)) {
                cur = c; cur_spec = s; progress = true;
            } else {
                p += 1;
            }
        }
        // drop single messages
        for p in 0..=cur.producers.len() {
            let mut i = 0;
            loop {
                let len = if p < cur.producers.len() { cur.producers[p].len() } else { cur.main_msgs.len() };
                if i >= len { break; }
                let mut c = cur.clone();
                if p < c.producers.len() { c.producers[p].remove(i); } else { c.main_msgs.remove(i); }
                if let Some(s) = fails_with(&c, class, &block(&cur_spec)) {
                    cur = c; cur_spec = s; progress = true;
                } else {
                    i += 1;
                }
            }
        }
        // remove yields
        let mut c = cur.clone();
        c.main_yields = 0;
        for m in c.producers.iter_mut().flatten().chain(c.main_msgs.iter_mut()) { m.yields = 0; }
        if c != cur {
            if let Some(s) = fails_with(&c, class, &block(&cur_spec)) {
                cur = c; cur_spec = s; progress = true;
            }
        }
    }
    // schedule: prefer the simplest kind, then the shortest trace prefix (the rest falls back to "sticky")
    for simple in [SchedSpec::Sticky, SchedSpec::RoundRobin] {
        if matches!(&run_one(&cur, &simple).verdict, Err(v) if v.class == class) {
            return (cur, simple);
        }
    }
    if let SchedSpec::Trace { tasks: t, rands } = &cur_spec {
        let rands = rands.clone();
        let mut t = t.clone();
        let mut lo = 0usize;
        let mut hi = t.len();
        while lo < hi {
            let mid = (lo + hi) / 2;
            let cand = SchedSpec::Trace { tasks: t[..mid].to_vec(), rands: rands.clone() };
            if matches!(&run_one(&cur, &cand).verdict, Err(v) if v.class == class) {
                hi = mid;
            } else {
                lo = mid + 1;
            }
        }
        t.truncate(hi);
        let cand = SchedSpec::Trace { tasks: t, rands };
        if matches!(&run_one(&cur, &cand).verdict, Err(v) if v.class == class) {
            cur_spec = cand;
        }
    }
    (cur, cur_spec)
}

#[derive(Serialize, Deserialize)]
struct Replay {
    property: String,
    engine: String,
    scenario: Scenario,
    sched: SchedSpec,
    violation: Violation,
    history: Vec<Ev>,
    output: Option<Output>,
    found_by: serde_json::Value,
}

fn replay_file(path: &str) -> i32 {
    let text = std::fs::read_to_string(path).expect("cannot read replay file");
    let rp: Replay = serde_json::from_str(&text).expect("cannot parse replay file");
    let r = run_one(&rp.scenario, &rp.sched);
    println!("history: {:?}", r.hist);
    println!("output:  {:?}", r.out);
    match r.verdict {
        Err(v) => {
            println!("replayed: class={} detail={}", v.class, v.detail);
            if r.hist != rp.history {
                println!("note: history differs from the recorded one");
            }
            println!("VIOLATION property=C25 replay={path}");
            1
        }
        Ok(()) => {
            println!("replay: property holds on this scenario and schedule (recorded violation: {})", rp.violation.class);
            0
        }
    }
}

#[derive(Default)]
struct WorkerOut {
    evals: u64,
    distinct_hist: HashSet<u64>,
    nontrivial: HashSet<u64>,
    interleavings: HashSet<u64>,
    steps: u64,
    events: u64,
    violations: Vec<(u64, Scenario, SchedSpec, Violation)>,
    reach: BTreeMap<&'static str, u64>,
    samples: Vec<(u64, Scenario, SchedSpec, Vec<Ev>, Option<Output>)>,
}

fn hash_of<T: std::hash::Hash>(t: &T) -> u64 {
    use std::hash::Hasher;
    struct F(u64);
    impl Hasher for F {
        fn finish(&self) -> u64 { simcommon::mix(self.0) }
        fn write(&mut self, b: &[u8]) { for x in b { self.0 ^= *x as u64; self.0 = self.0.wrapping_mul(0x0000_0100_0000_01b3); } }
    }
    let mut h = F(0xcbf2_9ce4_8422_2325);
    t.hash(&mut h);
    h.finish()
}

fn classify_panic(msg: &str) -> Violation {
    let class = if msg.contains("deadlock") {
        "deadlock"
    } else if msg.contains("max_steps") || msg.contains("exceeded") {
        "step_budget_exceeded"
    } else {
        "panic"
    };
    Violation { class: class.into(), detail: msg.lines().next().unwrap_or("").chars().take(300).collect() }
}

struct Slot {
    idx: u64,
    sc: Scenario,
    spec: SchedSpec,
    hist: Arc<Mutex<Vec<Ev>>>,
    out: Arc<Mutex<Option<Output>>>,
}

struct Batch {
    next: u64,
    runs: u64,
    stride: u64,
    seed: u64,
    sample_mod: u64,
    cur: Option<Slot>,
    acc: WorkerOut,
}

impl Batch {
    fn finalize(&mut self, prev: &SchedSpec, panic_msg: Option<String>) {
        let trace: &[u32] = match prev { SchedSpec::Trace { tasks, .. } => tasks, _ => &[] };
        let Some(slot) = self.cur.take() else { return };
        let evs = events::take();
        let hist = slot.hist.lock().unwrap().clone();
        let out = slot.out.lock().unwrap().clone();
        let verdict = match panic_msg {
            Some(m) => Err(classify_panic(&m)),
            None => check(&slot.sc, &hist, &out).map_err(|(class, detail)| Violation { class, detail }),
        };
        let r = RunResult { hist, out, trace: trace.to_vec(), replay_spec: prev.clone(), event_hash: events::hash(&evs), events: evs.len(), verdict };
        account(&mut self.acc, slot.idx, slot.sc, slot.spec, r, self.sample_mod);
    }
    fn advance(&mut self) -> Option<SchedSpec> {
        if self.next >= self.runs {
            return None;
        }
        let i = self.next;
        self.next += self.stride;
        let sc = gen(derive(self.seed, "C25", i, 0));
        let spec = SchedSpec::from_seed(derive(self.seed, "C25", i, 1));
        events::reset();
        self.cur = Some(Slot { idx: i, sc, spec: spec.clone(), hist: Arc::new(Mutex::new(Vec::new())), out: Arc::new(Mutex::new(None)) });
        Some(spec)
    }
}

fn account(o: &mut WorkerOut, i: u64, sc: Scenario, spec: SchedSpec, r: RunResult, sample_mod: u64) {
    o.evals += 1;
    o.steps += r.trace.len() as u64;
    o.events += r.events as u64;
    let h = hash_of(&(&sc, &r.hist));
    if h % sample_mod == 0 {
        o.distinct_hist.insert(h);
        o.interleavings.insert(r.event_hash);
    }
    let senders = sc.producers.iter().filter(|p| !p.is_empty()).count() + usize::from(!sc.main_msgs.is_empty());
    let total: usize = sc.producers.iter().map(|p| p.len()).sum::<usize>() + sc.main_msgs.len();
    if senders >= 2 && total >= 3 && h % sample_mod == 0 {
        o.nontrivial.insert(h);
    }
    let mut bump = |k: &'static str| *o.reach.entry(k).or_insert(0) += 1;
    bump(match sc.mode {
        Mode::JoinThenCollect => "mode_join_then_collect",
        Mode::CollectWhileRunning => "mode_collect_while_running",
        Mode::CollectWithLiveClone => "mode_collect_with_live_clone",
        Mode::DropWithoutCollect => "mode_drop_without_collect",
        Mode::CustomCollector => "mode_custom_collector",
        Mode::Disconnected => "mode_disconnected_sender",
    });
    bump(match spec {
        SchedSpec::Sticky => "sched_sticky",
        SchedSpec::RoundRobin => "sched_round_robin",
        SchedSpec::Random(_) => "sched_random",
        SchedSpec::Pct { .. } => "sched_pct",
        SchedSpec::Trace { .. } => "sched_trace",
    });
    if let Some(cc) = r.hist.iter().position(|e| *e == Ev::CollectCalled) {
        // a send that raced with collection: completed (or failed) after collection was requested
        let raced = r.hist.iter().enumerate().any(|(p, e)| matches!(e, Ev::Ok(_) | Ev::SendFailed(_)) && p > cc);
        if raced { bump("send_raced_with_collect"); }
        if r.hist.iter().any(|e| matches!(e, Ev::SendFailed(_))) && sc.mode != Mode::Disconnected { bump("send_after_collector_gone"); }
    }
    if let Some(out) = &r.out {
        let sent_cwes = sc.producers.iter().flatten().chain(sc.main_msgs.iter()).filter(|m| matches!(m.kind, scenario::Kind::Cwe(..) | scenario::Kind::CweNoAddr)).count();
        if sent_cwes > out.cwes.len() && sc.mode != Mode::CustomCollector && sc.mode != Mode::Disconnected { bump("dedup_collision"); }
    }
    match r.verdict {
        Ok(()) => {
            if o.samples.len() < 2 && senders >= 2 && total >= 4 {
                o.samples.push((i, sc, spec, r.hist, r.out));
            }
        }
        Err(v) => {
            if o.violations.len() < 32 {
                o.violations.push((i, sc, r.replay_spec, v));
            }
        }
    }
}

/// One worker = one OS thread. Runs are executed as executions of one shuttle `Runner` (so that
/// coroutine stacks are re-used); every execution gets its own schedule derived from its run
/// index and all scheduler state is reset, so a run is a function of (VERIF_SEED, run index) only.
fn worker(seed: u64, runs: u64, stride: u64, offset: u64, sample_mod: u64) -> WorkerOut {
    let batch = Arc::new(Mutex::new(Batch { next: offset, runs, stride, seed, sample_mod, cur: None, acc: WorkerOut::default() }));
    loop {
        let b1 = batch.clone();
        let (sched, trace) = SimScheduler::batch(Box::new(move |prev: &SchedSpec| {
            let mut b = b1.lock().unwrap();
            b.finalize(prev, None);
            b.advance()
        }));
        let mut cfg = shuttle::Config::new();
        cfg.max_steps = shuttle::MaxSteps::FailAfter(10_000);
        cfg.failure_persistence = shuttle::FailurePersistence::None;
        cfg.silence_warnings = true;
        cfg.stack_size = 0x20000;
        let b2 = batch.clone();
        LAST_PANIC.with(|p| p.borrow_mut().clear());
        let res = catch_unwind(AssertUnwindSafe(|| {
            shuttle::Runner::new(sched, cfg).run(move || {
                let (sc, hist, out) = {
                    let b = b2.lock().unwrap();
                    let s = b.cur.as_ref().unwrap();
                    (s.sc.clone(), s.hist.clone(), s.out.clone())
                };
                let o = execute(&sc, hist);
                *out.lock().unwrap() = o;
            });
        }));
        match res {
            Ok(_) => break,
            Err(payload) => {
                let msg = payload
                    .downcast_ref::<String>()
                    .cloned()
                    .or_else(|| payload.downcast_ref::<&str>().map(|s| s.to_string()))
                    .unwrap_or_else(|| LAST_PANIC.with(|p| p.borrow().clone()));
                let t = trace.as_spec();
                batch.lock().unwrap().finalize(&t, Some(msg));
                // continue with a fresh Runner from the next run index
            }
        }
    }
    let mut b = batch.lock().unwrap();
    std::mem::take(&mut b.acc)
}

fn main() {
    let args: Vec<String> = std::env::args().collect();
    std::panic::set_hook(Box::new(|info| {
        let s = info.to_string();
        LAST_PANIC.with(|p| *p.borrow_mut() = s);
    }));
    if args.len() >= 3 && args[1] == "replay" {
        std::process::exit(replay_file(&args[2]));
    }
    let tier = args.iter().position(|a| a == "--tier").and_then(|i| args.get(i + 1)).cloned().unwrap_or_else(|| "quick".into());
    let arg_num = |name: &str| args.iter().position(|a| a == name).and_then(|i| args.get(i + 1)).and_then(|s| s.parse::<u64>().ok());
    let verif_dir = std::env::var("VERIF_DIR").unwrap_or_else(|_| "/verif".into());
    let threads: u64 = std::env::var("VERIF_THREADS").ok().and_then(|s| s.parse().ok()).unwrap_or(16);
    let seed = simcommon::verif_seed();
    let (mut runs, sample_mod) = if tier == "thorough" { (30_000_000u64, 16u64) } else { (1_000_000u64, 1u64) };
    if let Some(n) = arg_num("--runs") { runs = n; }
    if args.iter().any(|a| a == "--dump-log") {
        for i in 0..runs.min(100_000) {
            let sc = gen(derive(seed, "C25", i, 0));
            let spec = SchedSpec::from_seed(derive(seed, "C25", i, 1));
            let r = run_one(&sc, &spec);
            println!("{i} {:016x} {:016x} {} {:?}", hash_of(&(&sc, &r.hist)), r.event_hash, r.trace.len(), r.verdict.map_err(|v| v.class));
        }
        return;
    }
    let t0 = std::time::Instant::now();
    println!("C25 engine A tier={tier} VERIF_SEED={seed} runs={runs} threads={threads}");
    let outs: Vec<WorkerOut> = std::thread::scope(|s| {
        let hs: Vec<_> = (0..threads).map(|t| s.spawn(move || worker(seed, runs, threads, t, sample_mod))).collect();
        hs.into_iter().map(|h| h.join().unwrap()).collect()
    });
    let mut total = WorkerOut::default();
    for o in outs {
        total.evals += o.evals;
        total.distinct_hist.extend(o.distinct_hist);
        total.nontrivial.extend(o.nontrivial);
        total.interleavings.extend(o.interleavings);
        total.steps += o.steps;
        total.events += o.events;
        total.violations.extend(o.violations);
        for (k, v) in o.reach { *total.reach.entry(k).or_insert(0) += v; }
        total.samples.extend(o.samples);
    }
    total.violations.sort_by_key(|v| v.0);
    total.samples.sort_by_key(|s| s.0);
    total.samples.truncate(2);
    let wall_a = t0.elapsed().as_secs_f64();

    let mut lines = Vec::new();
    let mut classes = HashSet::new();
    for (idx, sc, spec, v) in total.violations.iter() {
        if !classes.insert(v.class.clone()) || classes.len() > 4 {
            continue;
        }
        let (msc, mspec) = minimise(sc, spec, &v.class, seed);
        let r = run_one(&msc, &mspec);
        let Err(v2) = r.verdict.clone() else {
            eprintln!("HARNESS ERROR: minimised scenario does not reproduce {}", v.class);
            std::process::exit(2);
        };
        // replay must be exact: run it a second time and compare history and verdict
        let r2 = run_one(&msc, &mspec);
        if r2.hist != r.hist || r2.verdict != r.verdict {
            eprintln!("HARNESS ERROR: replay of the minimised scenario is not deterministic");
            std::process::exit(2);
        }
        let rp = Replay {
            property: "C25".into(),
            engine: "A (shuttle runtime, SimScheduler, channel stand-in)".into(),
            scenario: msc,
            sched: mspec,
            violation: v2,
            history: r.hist,
            output: r.out,
            found_by: serde_json::json!({"VERIF_SEED": seed, "run_index": idx, "original_scenario": sc, "original_schedule": spec.render()}),
        };
        let dir = format!("{verif_dir}/replays/C25");
        std::fs::create_dir_all(&dir).unwrap();
        let path = format!("{dir}/a_{}_{}.json", v.class, idx);
        std::fs::write(&path, serde_json::to_string_pretty(&rp).unwrap()).unwrap();
        lines.push(format!("VIOLATION property=C25 replay={path}"));
    }

    // engine B results (written by the driver script before this binary finishes? no: merged by the script afterwards)
    let needed = ["mode_join_then_collect", "mode_collect_while_running", "mode_collect_with_live_clone", "mode_drop_without_collect", "mode_custom_collector", "mode_disconnected_sender", "sched_sticky", "sched_round_robin", "sched_random", "sched_pct", "send_raced_with_collect", "dedup_collision", "send_after_collector_gone"];
    let dead: Vec<&str> = needed.iter().copied().filter(|k| total.reach.get(k).copied().unwrap_or(0) == 0).collect();
    let mut extra = serde_json::Map::new();
    extra.insert("engine_a_runs".into(), serde_json::json!(total.evals));
    extra.insert("scheduler_steps".into(), serde_json::json!(total.steps));
    extra.insert("channel_and_thread_events".into(), serde_json::json!(total.events));
    extra.insert("simulated_time".into(), serde_json::json!(format!("{} scheduler steps; no clock exists on this path", total.steps)));
    extra.insert("distinct_histories".into(), serde_json::json!(total.distinct_hist.len()));
    extra.insert("distinct_interleavings".into(), serde_json::json!(total.interleavings.len()));
    extra.insert("distinct_count_method".into(), serde_json::json!(format!("exact count of hashes of (scenario, invoke/ok/collect history) resp. of the (task, op, channel) event sequence, restricted to hashes divisible by {sample_mod}")));
    extra.insert("runs_per_hour".into(), serde_json::json!((total.evals as f64 / wall_a * 3600.0) as u64));
    extra.insert("reach".into(), serde_json::json!(total.reach));
    extra.insert("fault_kinds".into(), serde_json::json!({
        "preemption_at_every_channel_and_thread_operation": total.steps,
        "send_racing_with_collect": total.reach.get("send_raced_with_collect"),
        "send_after_collector_gone": total.reach.get("send_after_collector_gone"),
        "drop_without_collect": total.reach.get("mode_drop_without_collect"),
        "collect_with_live_sender_clone": total.reach.get("mode_collect_with_live_clone")}));
    extra.insert("components".into(), serde_json::json!({
        "real": ["utils::log::LogThread::{spawn, get_msg_sender, collect, Drop, collect_and_deduplicate, create_disconnected_sender}", "LogMessage / CweWarning / LogThreadMsg"],
        "stub": ["std::thread -> shuttle::thread (guarded alias in utils/log.rs)", "crossbeam_channel -> /verif/sim/chan over shuttle Mutex+Condvar (engine A only; engine B runs the real crate under Miri)"]}));
    let samples: Vec<serde_json::Value> = total.samples.iter().map(|(i, sc, spec, h, o)| serde_json::json!({"run_index": i, "scenario": sc, "schedule": spec.render(), "history": h, "output": o, "verdict": "holds"})).collect();
    let ev = simcommon::evidence::Evidence {
        property_id: "C25".into(),
        tier: tier.clone(),
        seed,
        evaluations: total.evals,
        distinct_nontrivial: total.nontrivial.len() as u64,
        rule: "seeded scenarios (0-4 producer threads, <=12 messages: address-less logs, located logs, warnings with 1-2 addresses from a pool of 3 to force de-duplication collisions; scripted yields; 6 collection modes) x seeded schedules (sticky, round-robin, random, PCT depth 1-4). distinct = distinct hash of (scenario, recorded invoke/ok/collect history); non-trivial = at least 2 sending threads and at least 3 messages".into(),
        samples,
        extra,
        assumptions: vec![
            "engine A: the channel stand-in implements the documented crossbeam-channel contract (unbounded MPMC FIFO, blocking recv, Err on disconnect); engine B (Miri) runs the same scenarios on the real crate".into(),
            "shuttle's coroutine runtime and deadlock detection".into(),
            "messages racing with collect() may be lost or kept: the oracle constrains only messages whose send returned before collection was requested".into(),
        ],
        wall_s: t0.elapsed().as_secs_f64(),
        violations: total.violations.len() as u64,
    };
    ev.write(&format!("{verif_dir}/evidence/C25.json")).unwrap();
    println!("C25 engine A: {} runs, {} distinct histories, {} distinct interleavings, {:.1}s", total.evals, total.distinct_hist.len(), total.interleavings.len(), wall_a);
    if !dead.is_empty() && total.violations.is_empty() {
        eprintln!("HARNESS ERROR: reach counters stuck at zero: {dead:?}");
        std::process::exit(2);
    }
    if !lines.is_empty() {
        for l in &lines { println!("{l}"); }
        std::process::exit(1);
    }
    println!("C25 engine A: property held on everything explored");
    let _ = Rng::new(0);
}
