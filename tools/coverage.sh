#!/bin/bash
# Optional diagnostic (not a registered check): line coverage of /repo/src reached by a C21 campaign
# of the simulated CLI. Builds a coverage-instrumented cwe_checker_sim with the nightly toolchain in
# a scratch directory, runs the campaign in one-shot mode, prints files with many uncovered lines.
# usage: coverage.sh [workloads]      (scratch: /tmp/cov, removed at the end unless KEEP=1)
set -eu
N="${1:-500}"
S=/tmp/cov; rm -rf $S/prof $S/vd; mkdir -p $S/prof $S/vd/work $S/vd/env
T=~/.rustup/toolchains/nightly-x86_64-unknown-linux-gnu/lib/rustlib/x86_64-unknown-linux-gnu/bin
( cd /verif/sim && CARGO_TARGET_DIR=$S/target cargo +nightly build --release --offline -p cwe_checker \
    --config 'target.x86_64-unknown-linux-gnu.rustflags=["--cfg","cwe_checker_verif","-A","unexpected_cfgs","-C","instrument-coverage"]' 2>&1 | tail -1 )
cp /verif/env/libsimenv.so $S/vd/env/
( cd $S/vd && VERIF_DIR=$S/vd SIM_BIN=$S/target/x86_64-unknown-linux-gnu/release/cwe_checker_sim SIM_NO_SERVER=1 \
  LLVM_PROFILE_FILE=$S/prof/%p-%m.profraw /verif/sim/target/x86_64-unknown-linux-gnu/release/simctl check C21 --workloads "$N" | tail -2 )
$T/llvm-profdata merge -sparse $S/prof/*.profraw -o $S/merged.profdata
$T/llvm-cov report $S/target/x86_64-unknown-linux-gnu/release/cwe_checker_sim -instr-profile=$S/merged.profdata --ignore-filename-regex='(\.cargo|rustc|/verif/)' > $S/report.txt 2>/dev/null
python3 - <<'PY'
rows=[]
for l in open('/tmp/cov/report.txt'):
    p=l.split()
    if len(p)>=13 and p[0].endswith('.rs'):
        rows.append((float(p[9].strip('%')), int(p[7]), int(p[8]), p[0].replace('repo/src/cwe_checker_lib/src/','').replace('/repo/src/','')))
rows.sort()
tot=sum(r[1] for r in rows); miss=sum(r[2] for r in rows)
print("TOTAL lines %d, missed %d, line coverage %.1f%%" % (tot, miss, 100*(tot-miss)/tot))
for r in rows:
    if r[2] >= 40: print("%5.1f%% lines=%5d missed=%5d %s" % r)
PY
[ "${KEEP:-0}" = 1 ] || rm -rf $S/prof $S/vd
