import json, subprocess, sys, copy, os
env=dict(os.environ, XDG_CONFIG_HOME="/tmp/feas/cli/xdg")
def fails(p):
    json.dump(p,open("/tmp/feas/cli/dd.json","w"))
    r=subprocess.run(["/tmp/feas/target/release/cwe_checker","/tmp/feas/cli/ws/w109.elf","--pcode-raw","/tmp/feas/cli/dd.json","--json","--quiet","--partial","Memory"],env=env,capture_output=True,text=True)
    return r.returncode==101 and "Abstract object does not exist" in r.stderr
p=json.load(open("/tmp/feas/cli/ws/w109.json"))
assert fails(p)
changed=True
while changed:
    changed=False
    subs=p["program"]["term"]["subs"]
    for i in range(len(subs)):
        q=copy.deepcopy(p); del q["program"]["term"]["subs"][i]
        if fails(q): p=q; changed=True; break
    if changed: continue
    for si,s in enumerate(subs):
        for bi,b in enumerate(s["term"]["blocks"]):
            for di in range(len(b["term"]["defs"])):
                q=copy.deepcopy(p); del q["program"]["term"]["subs"][si]["term"]["blocks"][bi]["term"]["defs"][di]
                if fails(q): p=q; changed=True; break
            if changed: break
            if bi>0:
                q=copy.deepcopy(p); del q["program"]["term"]["subs"][si]["term"]["blocks"][bi]
                if fails(q): p=q; changed=True; break
        if changed: break
json.dump(p,open("/verif/notes/recon/c21_pi_add_param_panic.pcode.json","w"),indent=1)
def show(v):
    if v is None: return "-"
    return v["name"] or (("c:"+v["value"]) if v["value"] else "@"+v["address"])
for s in p["program"]["term"]["subs"]:
    print("SUB",s["tid"]["id"])
    for b in s["term"]["blocks"]:
        print(" BLK",b["tid"]["id"])
        for d in b["term"]["defs"]:
            t=d["term"]; print("   ",show(t["lhs"]),"=",t["rhs"]["mnemonic"],show(t["rhs"]["input0"]),show(t["rhs"]["input1"]),show(t["rhs"]["input2"]))
        for j in b["term"]["jmps"]:
            t=j["term"]; print("   JMP",t["mnemonic"],json.dumps(t["goto"])[:80],json.dumps(t["call"])[:160])
