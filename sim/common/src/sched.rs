//! A scheduler whose every decision is a function of one seed, which records the decisions
//! it took, and which can re-execute (a prefix of) a recorded decision list.
//!
//! It implements shuttle's `Scheduler` trait, so shuttle's runtime (coroutines, blocking,
//! deadlock detection) is used, but *who runs next* is decided here.

use crate::rng::Rng;
use shuttle::scheduler::{Schedule, Scheduler, Task, TaskId};
use std::sync::{Arc, Mutex};

/// Description of a schedule, as it appears in replay files and in `SIM_SCHED`.
#[derive(Clone, Debug, PartialEq, Eq, serde::Serialize, serde::Deserialize)]
pub enum SchedSpec {
    /// Run the current task as long as it is runnable, then the lowest-numbered runnable task.
    /// (Deterministic baseline: no preemption at all.)
    Sticky,
    /// Cycle through the runnable tasks at every scheduling point.
    RoundRobin,
    /// Uniformly random runnable task at every scheduling point.
    Random(u64),
    /// PCT: random task priorities, `depth - 1` priority change points among the first `span` steps.
    Pct { seed: u64, depth: u32, span: u32 },
    /// Follow the given task ids; where the recorded task is not runnable or the list is
    /// exhausted, fall back to `Sticky`. `rands` are the values handed to the program's
    /// simulated randomness (e.g. "does this timeout fire now"), 0 when exhausted.
    Trace { tasks: Vec<u32>, rands: Vec<u64> },
}

impl SchedSpec {
    /// Parse `sticky`, `rr`, `random:<seed>`, `pct:<seed>:<depth>:<span>`, `trace:1,0,2`.
    pub fn parse(s: &str) -> Option<SchedSpec> {
        let s = s.trim();
        let mut it = s.split(':');
        match it.next()? {
            "sticky" | "" => Some(SchedSpec::Sticky),
            "rr" => Some(SchedSpec::RoundRobin),
            "random" => Some(SchedSpec::Random(it.next()?.parse().ok()?)),
            "pct" => Some(SchedSpec::Pct {
                seed: it.next()?.parse().ok()?,
                depth: it.next()?.parse().ok()?,
                span: it.next()?.parse().ok()?,
            }),
            "trace" => {
                let list = it.next().unwrap_or("");
                let mut tasks = Vec::new();
                for t in list.split(',').filter(|t| !t.is_empty()) {
                    tasks.push(t.parse().ok()?);
                }
                let mut rands = Vec::new();
                for t in it.next().unwrap_or("").split(',').filter(|t| !t.is_empty()) {
                    rands.push(t.parse().ok()?);
                }
                Some(SchedSpec::Trace { tasks, rands })
            }
            _ => None,
        }
    }
    pub fn render(&self) -> String {
        match self {
            SchedSpec::Sticky => "sticky".into(),
            SchedSpec::RoundRobin => "rr".into(),
            SchedSpec::Random(s) => format!("random:{s}"),
            SchedSpec::Pct { seed, depth, span } => format!("pct:{seed}:{depth}:{span}"),
            SchedSpec::Trace { tasks, rands } => format!(
                "trace:{}:{}",
                tasks.iter().map(|t| t.to_string()).collect::<Vec<_>>().join(","),
                rands.iter().map(|t| t.to_string()).collect::<Vec<_>>().join(",")
            ),
        }
    }
    /// Derive a schedule kind and seed from one integer (swarm over scheduler kinds).
    pub fn from_seed(seed: u64) -> SchedSpec {
        let mut r = Rng::new(seed);
        match r.below(8) {
            0 => SchedSpec::Sticky,
            1 => SchedSpec::RoundRobin,
            2..=4 => SchedSpec::Random(r.next()),
            _ => SchedSpec::Pct {
                seed: r.next(),
                depth: 1 + r.below(4) as u32,
                span: [8u32, 16, 32, 64, 200][r.below(5) as usize],
            },
        }
    }
}

/// Shared record of the decisions of one execution.
#[derive(Clone, Default)]
pub struct TraceHandle(pub Arc<Mutex<Vec<u32>>>, pub Arc<Mutex<Vec<u64>>>);

impl TraceHandle {
    /// The task chosen at every scheduling point so far.
    pub fn snapshot(&self) -> Vec<u32> {
        self.0.lock().unwrap().clone()
    }
    /// The random values handed out so far.
    pub fn rands(&self) -> Vec<u64> {
        self.1.lock().unwrap().clone()
    }
    /// The execution so far as a schedule that replays it exactly.
    pub fn as_spec(&self) -> SchedSpec {
        SchedSpec::Trace { tasks: self.snapshot(), rands: self.rands() }
    }
    fn clear(&self) {
        self.0.lock().unwrap().clear();
        self.1.lock().unwrap().clear();
    }
}

/// Supplies the schedule of the next execution of a batch (`None` ends the batch).
pub type SpecProvider = Box<dyn FnMut(&SchedSpec) -> Option<SchedSpec> + Send>;
// (argument: the previous execution of the batch as an exactly replaying `Trace` schedule)

pub struct SimScheduler {
    provider: Option<SpecProvider>,
    spec: SchedSpec,
    rng: Rng,
    started: bool,
    step: u32,
    rr_last: usize,
    rand_pos: usize,
    /// PCT state: priority per task id (higher runs first), remaining change points.
    prio: Vec<u64>,
    change_points: Vec<u32>,
    trace: TraceHandle,
}

impl SimScheduler {
    /// One `Runner`, many executions: before each execution `provider` is asked for the next
    /// schedule (it is also the place to harvest the results of the previous execution). All
    /// scheduler state is reset per execution, so a run behaves exactly as under `new(spec)`;
    /// the point is that shuttle re-uses its coroutine stacks within one `Runner::run`.
    pub fn batch(provider: SpecProvider) -> (Self, TraceHandle) {
        let (mut s, t) = Self::new(SchedSpec::Sticky);
        s.provider = Some(provider);
        (s, t)
    }

    fn reset(&mut self, spec: SchedSpec) {
        let (rng, change_points) = Self::init(&spec);
        self.spec = spec;
        self.rng = rng;
        self.change_points = change_points;
        self.step = 0;
        self.rr_last = 0;
        self.prio.clear();
        self.trace.clear();
        self.rand_pos = 0;
    }

    fn init(spec: &SchedSpec) -> (Rng, Vec<u32>) {
        match spec {
            SchedSpec::Random(s) => (Rng::new(*s), vec![]),
            SchedSpec::Pct { seed, depth, span } => {
                let mut r = Rng::new(*seed);
                let mut cps: Vec<u32> = (1..*depth).map(|_| r.below(*span as u64) as u32).collect();
                cps.sort_unstable();
                (r, cps)
            }
            _ => (Rng::new(0), vec![]),
        }
    }

    pub fn new(spec: SchedSpec) -> (Self, TraceHandle) {
        let trace = TraceHandle::default();
        let (rng, change_points) = match &spec {
            SchedSpec::Random(s) => (Rng::new(*s), vec![]),
            SchedSpec::Pct { seed, depth, span } => {
                let mut r = Rng::new(*seed);
                let mut cps: Vec<u32> = (1..*depth).map(|_| r.below(*span as u64) as u32).collect();
                cps.sort_unstable();
                (r, cps)
            }
            _ => (Rng::new(0), vec![]),
        };
        (
            SimScheduler {
                provider: None,
                spec,
                rng,
                started: false,
                step: 0,
                rr_last: 0,
                rand_pos: 0,
                prio: Vec::new(),
                change_points,
                trace: trace.clone(),
            },
            trace,
        )
    }

    fn sticky(runnable: &[&Task], current: Option<TaskId>) -> TaskId {
        if let Some(c) = current {
            if runnable.iter().any(|t| t.id() == c) {
                return c;
            }
        }
        runnable.iter().map(|t| t.id()).min_by_key(|t| usize::from(*t)).unwrap()
    }
}

impl Scheduler for SimScheduler {
    fn new_execution(&mut self) -> Option<Schedule> {
        if let Some(p) = self.provider.as_mut() {
            let previous = self.trace.as_spec();
            return match p(&previous) {
                Some(spec) => {
                    self.reset(spec);
                    Some(Schedule::new(0))
                }
                None => None,
            };
        }
        if self.started {
            None
        } else {
            self.started = true;
            Some(Schedule::new(0))
        }
    }

    fn next_task(
        &mut self,
        runnable: &[&Task],
        current: Option<TaskId>,
        is_yielding: bool,
    ) -> Option<TaskId> {
        let step = self.step;
        self.step += 1;
        let choice = match &self.spec {
            SchedSpec::Sticky => {
                if is_yielding && runnable.len() > 1 {
                    // a yielding task must let others run, otherwise spin loops never end
                    let cur = current.map(usize::from);
                    runnable
                        .iter()
                        .map(|t| t.id())
                        .filter(|t| Some(usize::from(*t)) != cur)
                        .min_by_key(|t| usize::from(*t))
                        .unwrap()
                } else {
                    Self::sticky(runnable, current)
                }
            }
            SchedSpec::RoundRobin => {
                let mut ids: Vec<usize> = runnable.iter().map(|t| usize::from(t.id())).collect();
                ids.sort_unstable();
                let next = ids.iter().copied().find(|i| *i > self.rr_last).unwrap_or(ids[0]);
                self.rr_last = next;
                TaskId::from(next)
            }
            SchedSpec::Random(_) => {
                let mut ids: Vec<usize> = runnable.iter().map(|t| usize::from(t.id())).collect();
                ids.sort_unstable();
                if is_yielding && ids.len() > 1 {
                    if let Some(c) = current {
                        ids.retain(|i| *i != usize::from(c));
                    }
                }
                TaskId::from(ids[self.rng.below(ids.len() as u64) as usize])
            }
            SchedSpec::Pct { .. } => {
                let mut ids: Vec<usize> = runnable.iter().map(|t| usize::from(t.id())).collect();
                ids.sort_unstable();
                let max_id = *ids.iter().max().unwrap();
                while self.prio.len() <= max_id {
                    // new tasks get a random priority above all change-point priorities
                    let p = 1_000 + self.rng.below(1 << 40);
                    self.prio.push(p);
                }
                if let Some(pos) = self.change_points.iter().position(|cp| *cp == step) {
                    // lower the priority of the task that would run now
                    if let Some(c) = ids.iter().copied().max_by_key(|i| self.prio[*i]) {
                        self.prio[c] = (self.change_points.len() - pos) as u64;
                    }
                }
                if is_yielding && ids.len() > 1 {
                    if let Some(c) = current {
                        let c = usize::from(c);
                        if c < self.prio.len() {
                            // de-prioritise a yielding task below every other one
                            self.prio[c] = 0;
                        }
                    }
                }
                TaskId::from(ids.iter().copied().max_by_key(|i| self.prio[*i]).unwrap())
            }
            SchedSpec::Trace { tasks: list, .. } => {
                let want = list.get(step as usize).map(|t| *t as usize);
                match want {
                    Some(w) if runnable.iter().any(|t| usize::from(t.id()) == w) => TaskId::from(w),
                    _ => {
                        if is_yielding && runnable.len() > 1 {
                            let cur = current.map(usize::from);
                            runnable
                                .iter()
                                .map(|t| t.id())
                                .filter(|t| Some(usize::from(*t)) != cur)
                                .min_by_key(|t| usize::from(*t))
                                .unwrap()
                        } else {
                            Self::sticky(runnable, current)
                        }
                    }
                }
            }
        };
        self.trace.0.lock().unwrap().push(usize::from(choice) as u32);
        Some(choice)
    }

    fn next_u64(&mut self) -> u64 {
        let v = match &self.spec {
            SchedSpec::Trace { rands, .. } => rands.get(self.rand_pos).copied().unwrap_or(0),
            _ => self.rng.next(),
        };
        self.rand_pos += 1;
        self.trace.1.lock().unwrap().push(v);
        v
    }
}
