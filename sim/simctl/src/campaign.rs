//! Campaigns for C21 / C22 / C23 over the simulated CLI, replay, known findings, evidence.

use crate::gen::{self, Workload};
use crate::minimise;
use crate::oracle::{self, viol, Known, Violation, Warning};
use crate::run::{self, CliMode, Env, Paths, RunOut, Selection, WorkDir};
use serde::{Deserialize, Serialize};
use serde_json::{json, Value};
use simcommon::{derive, fnv64, Rng, SchedSpec};
use std::collections::{BTreeMap, BTreeSet, HashSet};
use std::path::PathBuf;
use std::sync::atomic::{AtomicU64, Ordering};
use std::sync::Mutex;

/// verdicts of the server fast path that fresh processes did not confirm (must stay 0)
static DISCREPANCIES: AtomicU64 = AtomicU64::new(0);
/// confirmed violations so far; exploration stops early once a handful is at hand
static FOUND: AtomicU64 = AtomicU64::new(0);
/// runs that exceeded the exploration tripwire but completed when run again
static SLOW_RUNS: AtomicU64 = AtomicU64::new(0);

// -------------------------------------------------------------------------------------------------
// cases and their evaluation (used by campaigns, minimisation and replay alike)
// -------------------------------------------------------------------------------------------------

#[derive(Clone, Debug, Serialize, Deserialize, PartialEq, Eq)]
pub enum Case {
    /// one run; oracle "c21" or "c22_run"
    Single { mode: CliMode, env: Env },
    /// two runs on the same input; oracle "c23" (same mode, two environments) or "c22_diff"
    /// (a = all checks, b = a selection; per-check output must agree)
    Pair { mode_a: CliMode, env_a: Env, mode_b: CliMode, env_b: Env },
    /// `--module-versions` (plus further flags that must not matter); oracle "module_versions"
    ModuleVersions {
        env: Env,
        #[serde(default)]
        extra: Vec<String>,
    },
}

#[derive(Serialize, Deserialize)]
pub struct ReplayFile {
    pub property: String,
    pub oracle: String,
    pub case: Case,
    pub lkm: bool,
    pub violation: Violation,
    pub meta: Value,
    pub found_by: Value,
    /// materialised inputs: the P-Code project and the ELF image (hex)
    pub pcode: Value,
    pub elf_hex: String,
}

fn to_hex(b: &[u8]) -> String {
    let mut s = String::with_capacity(b.len() * 2);
    for x in b {
        s.push_str(&format!("{x:02x}"));
    }
    s
}
fn from_hex(s: &str) -> Vec<u8> {
    (0..s.len() / 2).map(|i| u8::from_str_radix(&s[2 * i..2 * i + 2], 16).unwrap()).collect()
}

pub struct Ctx {
    pub paths: Paths,
    pub known: Known,
    pub seed: u64,
    pub verif_dir: String,
    pub findings: Vec<Finding>,
}

#[derive(Clone, Debug, Serialize, Deserialize)]
pub struct Finding {
    pub property: String,
    /// violation class this entry identifies (for panics: source file | innermost library frame | message)
    pub key: String,
    pub status: String,
    pub description: String,
}

fn load_findings(verif_dir: &str) -> Vec<Finding> {
    let path = format!("{verif_dir}/known_findings.json");
    match std::fs::read_to_string(&path) {
        Ok(t) => {
            let v: Value = serde_json::from_str(&t).unwrap_or_else(|e| {
                eprintln!("HARNESS ERROR: {path} does not parse: {e}");
                std::process::exit(2)
            });
            serde_json::from_value(v["findings"].clone()).unwrap_or_default()
        }
        Err(_) => vec![],
    }
}

fn selected_of(mode: &CliMode, lkm: bool, known: &Known) -> BTreeSet<String> {
    oracle::expected_checks(&mode.selection, lkm, known)
}

/// Addresses of all terms of the P-Code project currently written to the work directory.
fn program_addresses(wd: &WorkDir) -> BTreeSet<String> {
    fn walk(v: &Value, out: &mut BTreeSet<String>) {
        match v {
            Value::Object(m) => {
                if let (Some(Value::String(_)), Some(Value::String(a))) = (m.get("id"), m.get("address")) {
                    out.insert(a.clone());
                }
                for x in m.values() {
                    walk(x, out);
                }
            }
            Value::Array(a) => a.iter().for_each(|x| walk(x, out)),
            _ => {}
        }
    }
    let mut out = BTreeSet::new();
    if let Ok(b) = std::fs::read(wd.p("w.json")) {
        if let Ok(v) = serde_json::from_slice::<Value>(&b) {
            walk(&v, &mut out);
        }
    }
    out
}

pub struct Eval {
    pub outs: Vec<RunOut>,
    pub warnings: Vec<Vec<Warning>>,
}

/// Evaluate `oracle_kind` on `case` with the workload already written to `wd`.
pub fn evaluate(ctx: &Ctx, wd: &WorkDir, oracle_kind: &str, case: &Case, lkm: bool) -> Result<Eval, (Violation, Vec<RunOut>)> {
    match (oracle_kind, case) {
        ("c21", Case::Single { mode, env }) => {
            let out = run::run_cli(wd, &ctx.paths, mode, env, lkm);
            match oracle::check_c21(mode, &out, &ctx.known, &selected_of(mode, lkm, &ctx.known)) {
                Ok(ws) => {
                    // "carrying the reported addresses": every address of a warning is an address of a
                    // term of the analysed program
                    if mode.json && ws.iter().any(|w| !w.addresses.is_empty()) {
                        let addrs = program_addresses(wd);
                        for w in &ws {
                            if let Some(a) = w.addresses.iter().find(|a| !addrs.contains(*a)) {
                                return Err((viol("address_not_in_program", format!("warning {} reports address {a:?}, which is not an address of any term of the input program", w.name)), vec![out]));
                            }
                        }
                    }
                    // text output says what the JSON output says: one `[name] (version) description`
                    // line per warning, in the same order (cross-check against a JSON run of the same
                    // input in the same environment; only when the text stream is cleanly separable)
                    if !mode.json && (mode.quiet || mode.out_file) {
                        let jmode = CliMode { json: true, ..mode.clone() };
                        let jout = run::run_cli(wd, &ctx.paths, &jmode, env, lkm);
                        if let Ok(jws) = oracle::check_c21(&jmode, &jout, &ctx.known, &selected_of(mode, lkm, &ctx.known)) {
                            let want: Vec<String> = jws.iter().map(|w| format!("[{}] ({}) {}", w.name, w.version, w.description)).collect();
                            let got: Vec<String> = ws.iter().map(|w| format!("[{}] ({}) {}", w.name, w.version, w.description)).collect();
                            if want != got {
                                let first = want.iter().zip(got.iter()).position(|(a, b)| a != b).unwrap_or(want.len().min(got.len()));
                                return Err((
                                    viol("text_output_differs_from_json", format!("text mode prints {} warning lines, JSON mode {} warnings; first difference at line {first}: text {:?} vs json {:?}", got.len(), want.len(), got.get(first), want.get(first))),
                                    vec![out, jout],
                                ));
                            }
                        }
                    }
                    Ok(Eval { outs: vec![out], warnings: vec![ws] })
                }
                Err(v) => Err((v, vec![out])),
            }
        }
        ("c22_run", Case::Single { mode, env }) => {
            let out = run::run_cli(wd, &ctx.paths, mode, env, lkm);
            // termination and well-formedness are C21's business: such runs cannot be judged here
            let ws = match oracle::check_c21(mode, &out, &ctx.known, &selected_of(mode, lkm, &ctx.known)) {
                Ok(ws) => ws,
                Err(v) if v.class == "warning_of_unselected_check" => return Err((v, vec![out])),
                Err(v) => return Err((viol(format!("not_judgeable: {}", v.class), v.detail), vec![out])),
            };
            match oracle::check_c22_run(mode, &out, &ctx.known, lkm) {
                Ok(()) => Ok(Eval { outs: vec![out], warnings: vec![ws] }),
                Err(v) => Err((v, vec![out])),
            }
        }
        ("c22_diff", Case::Pair { mode_a, env_a, mode_b, env_b }) => {
            let a = run::run_cli(wd, &ctx.paths, mode_a, env_a, lkm);
            let sel_a = selected_of(mode_a, lkm, &ctx.known);
            let wa = match oracle::check_c21(mode_a, &a, &ctx.known, &sel_a) {
                Ok(w) => w,
                Err(v) => return Err((viol(format!("not_judgeable: {}", v.class), v.detail), vec![a])),
            };
            let b = run::run_cli(wd, &ctx.paths, mode_b, env_b, lkm);
            let sel_b = selected_of(mode_b, lkm, &ctx.known);
            let wb = match oracle::check_c21(mode_b, &b, &ctx.known, &sel_b) {
                Ok(w) => w,
                Err(v) if v.class == "warning_of_unselected_check" => return Err((v, vec![a, b])),
                Err(v) => return Err((viol(format!("not_judgeable: {}", v.class), v.detail), vec![a, b])),
            };
            // Selection only filters: what a selected check reports does not depend on what else runs.
            // Warnings are attributed to checks by (name, version); a key owned by several checks is
            // compared only when all or none of its owners are selected in the partial run.
            let owners = |w: &Warning| -> Vec<String> {
                ctx.known.versions.iter().filter(|(c, v)| oracle::may_emit(c, &w.name) && **v == w.version).map(|(c, _)| c.clone()).collect()
            };
            let filt = |ws: &[Warning], sel: &BTreeSet<String>| -> Result<Vec<Warning>, ()> {
                let mut out = Vec::new();
                for w in ws {
                    let o = owners(w);
                    let n_sel = o.iter().filter(|c| sel.contains(*c) && sel_a.contains(*c)).count();
                    if n_sel == o.len() {
                        out.push(w.clone());
                    } else if n_sel != 0 {
                        return Err(());
                    }
                }
                Ok(out)
            };
            if let (Ok(fa), Ok(fb)) = (filt(&wa, &sel_b), filt(&wb, &sel_b)) {
                if fa != fb {
                    let only_a: Vec<&Warning> = fa.iter().filter(|w| !fb.contains(w)).collect();
                    let only_b: Vec<&Warning> = fb.iter().filter(|w| !fa.contains(w)).collect();
                    let name = only_a.first().or(only_b.first()).map(|w| w.name.clone()).unwrap_or_default();
                    return Err((
                        viol(
                            "selection_changes_check_output",
                            format!("warnings of the selected checks differ between the all-checks run and the partial run (first differing check: {name}; {} only in all-checks run, {} only in partial run)", only_a.len(), only_b.len()),
                        ),
                        vec![a, b],
                    ));
                }
            }
            Ok(Eval { outs: vec![a, b], warnings: vec![wa, wb] })
        }
        ("c23", Case::Pair { mode_a, env_a, mode_b, env_b }) => {
            let a = run::run_cli(wd, &ctx.paths, mode_a, env_a, lkm);
            let b = run::run_cli(wd, &ctx.paths, mode_b, env_b, lkm);
            // a run that does not terminate normally is C21's business, unless only one of the two does
            let ok = |o: &RunOut| o.exit == Some(0) && !o.timed_out;
            if a.timed_out || b.timed_out {
                // a real-time tripwire is no basis for comparing two runs: termination is C21's business
                return Err((viol("not_judgeable: no_termination", "a run exceeded the real-time tripwire"), vec![a, b]));
            }
            if !ok(&a) && !ok(&b) {
                let ka = oracle::panic_key(&a.stderr).unwrap_or_else(|| format!("exit {:?}", a.exit));
                return Err((viol(format!("not_judgeable: {ka}"), "both runs failed to terminate normally"), vec![a, b]));
            }
            if ok(&a) != ok(&b) {
                let (bad, which) = if ok(&a) { (&b, "second") } else { (&a, "first") };
                let k = oracle::panic_key(&bad.stderr).unwrap_or_else(|| format!("exit {:?}", bad.exit));
                return Err((viol("termination_differs", format!("only the {which} of two runs on the same input terminated abnormally: {k}")), vec![a, b]));
            }
            let ba = oracle::warning_bytes(mode_a, &a).map(|x| x.to_vec());
            let bb = oracle::warning_bytes(mode_b, &b).map(|x| x.to_vec());
            match (ba, bb) {
                (Ok(x), Ok(y)) => {
                    let (x, y) = if !mode_a.quiet && !mode_a.out_file {
                        // logs and warnings share stdout: compare the warning part only
                        let cut = |v: &[u8]| -> Vec<u8> {
                            let t = String::from_utf8_lossy(v).to_string();
                            let mut start = 0;
                            let mut pos = 0;
                            for line in t.split_inclusive('\n') {
                                let l = line.trim_end_matches('\n');
                                if l == "[" || l == "[]" {
                                    start = pos;
                                }
                                pos += line.len();
                            }
                            t[start..].as_bytes().to_vec()
                        };
                        (cut(&x), cut(&y))
                    } else {
                        (x, y)
                    };
                    if x != y {
                        let knob = if env_a.entropy != env_b.entropy && env_a.sched == env_b.sched && env_a.io == env_b.io {
                            "hash seed"
                        } else if env_a.entropy == env_b.entropy && env_a.sched != env_b.sched && env_a.io == env_b.io {
                            "thread schedule"
                        } else if env_a.entropy == env_b.entropy && env_a.sched == env_b.sched && env_b.io.starts_with("0;clock=") && !env_b.pipe && !env_b.stale_out {
                            "the clock"
                        } else if env_a.entropy == env_b.entropy && env_a.sched == env_b.sched {
                            "syscall behaviour"
                        } else {
                            "environment"
                        };
                        let sx = String::from_utf8_lossy(&x).to_string();
                        let sy = String::from_utf8_lossy(&y).to_string();
                        let first = sx.lines().zip(sy.lines()).position(|(p, q)| p != q).unwrap_or(sx.lines().count().min(sy.lines().count()));
                        // which checks' warnings differ (names of the warnings in the symmetric difference)
                        let class = match (serde_json::from_str::<Vec<Warning>>(&sx), serde_json::from_str::<Vec<Warning>>(&sy)) {
                            (Ok(wx), Ok(wy)) => {
                                let names: BTreeSet<String> = wx.iter().filter(|w| !wy.contains(w)).chain(wy.iter().filter(|w| !wx.contains(w))).map(|w| w.name.clone()).collect();
                                if names.is_empty() { "output_differs: order only".to_string() } else { format!("output_differs: {}", names.into_iter().collect::<Vec<_>>().join(",")) }
                            }
                            _ => "output_differs".to_string(),
                        };
                        return Err((
                            viol(class, format!("warning output differs between two runs on the same input that differ only in {knob} (first differing line {first}: {:?} vs {:?})", sx.lines().nth(first).unwrap_or(""), sy.lines().nth(first).unwrap_or(""))),
                            vec![a, b],
                        ));
                    }
                    Ok(Eval { outs: vec![a, b], warnings: vec![] })
                }
                (Err(v), _) | (_, Err(v)) => Err((v, vec![a, b])),
            }
        }
        ("module_versions", Case::ModuleVersions { env, extra }) => {
            let mut argv = vec!["--module-versions".to_string()];
            argv.extend(extra.iter().cloned());
            let out = run::run_raw(wd, &ctx.paths, &argv, env);
            if out.exit != Some(0) {
                return Err((viol("module_versions_listing", format!("--module-versions exited with {:?}", out.exit)), vec![out]));
            }
            let listing = match oracle::parse_module_versions(&String::from_utf8_lossy(&out.stdout)) {
                Ok(l) => l,
                Err(v) => return Err((v, vec![out])),
            };
            let mut seen = BTreeMap::new();
            for (n, _) in &listing {
                *seen.entry(n.clone()).or_insert(0usize) += 1;
            }
            for n in &ctx.known.source_names {
                match seen.get(n) {
                    Some(1) => {}
                    Some(k) => return Err((viol("module_versions_listing", format!("check {n} is listed {k} times")), vec![out])),
                    None => return Err((viol("module_versions_listing", format!("known check {n} is missing from the listing")), vec![out])),
                }
            }
            for n in seen.keys() {
                if !ctx.known.source_names.contains(n) {
                    return Err((viol("module_versions_listing", format!("listing names {n}, which is not a check defined in the source tree")), vec![out]));
                }
            }
            Ok(Eval { outs: vec![out], warnings: vec![] })
        }
        _ => {
            eprintln!("HARNESS ERROR: oracle {oracle_kind} does not fit case {case:?}");
            std::process::exit(2)
        }
    }
}

// -------------------------------------------------------------------------------------------------
// discovery of the checks of the build under test
// -------------------------------------------------------------------------------------------------

fn scan_sources(dir: &std::path::Path, names: &mut BTreeSet<String>) {
    let Ok(rd) = std::fs::read_dir(dir) else { return };
    let mut entries: Vec<PathBuf> = rd.filter_map(|e| e.ok().map(|e| e.path())).collect();
    entries.sort();
    for p in entries {
        if p.is_dir() {
            scan_sources(&p, names);
        } else if p.extension().map_or(false, |e| e == "rs") {
            if let Ok(t) = std::fs::read_to_string(&p) {
                let mut rest = t.as_str();
                while let Some(i) = rest.find("pub static CWE_MODULE") {
                    rest = &rest[i + 10..];
                    if let Some(j) = rest.find("name: \"") {
                        let s = &rest[j + 7..];
                        if let Some(k) = s.find('"') {
                            names.insert(s[..k].to_string());
                        }
                    }
                }
            }
        }
    }
}

fn discover(paths: &Paths, verif_dir: &str) -> Known {
    let repo = std::env::var("VERIF_REPO").unwrap_or_else(|_| "/repo".into());
    let mut k = Known::default();
    scan_sources(std::path::Path::new(&format!("{repo}/src/cwe_checker_lib/src")), &mut k.source_names);
    let wd = WorkDir::new(&PathBuf::from(format!("{verif_dir}/work/{}/discover", std::process::id())), paths);
    let out = run::run_raw(&wd, paths, &["--module-versions".to_string()], &Env::baseline());
    match oracle::parse_module_versions(&String::from_utf8_lossy(&out.stdout)) {
        Ok(l) => {
            for (n, v) in l {
                k.versions.insert(n, v);
            }
        }
        Err(e) => {
            eprintln!("HARNESS ERROR: cannot obtain the module listing of the build under test: {e:?}\n{}", out.stderr);
            std::process::exit(2);
        }
    }
    // the kernel-module subset: library constant MODULES_LKM
    let checkers = std::fs::read_to_string(format!("{repo}/src/cwe_checker_lib/src/checkers.rs")).unwrap_or_default();
    if let Some(i) = checkers.find("MODULES_LKM") {
        let rest = &checkers[i..];
        if let (Some(eq), Some(end)) = (rest.find('='), rest.find("];")) {
            for part in rest[eq..end].split('"').skip(1).step_by(2) {
                if k.versions.contains_key(part) {
                    k.lkm.insert(part.to_string());
                }
            }
        }
    }
    // Which checks outside the kernel-module subset can be selected on a kernel module at all?
    // `lkm_config.json` ships no section for them; a check that deserialises its section panics on
    // `null` (scope decision, DESIGN 4.3), one that ignores its configuration runs. Probe three
    // kernel-module workloads; a check is selectable iff all probes end normally.
    let mut probes = Vec::new();
    let mut i = 0u64;
    while probes.len() < 3 && i < 2000 {
        let w = gen::generate(derive(0x70726f6265, "CLI.probe", i, 0));
        if w.meta.lkm {
            probes.push(w);
        }
        i += 1;
    }
    let candidates: Vec<String> = k.versions.keys().filter(|c| !k.lkm.contains(*c)).cloned().collect();
    for c in candidates {
        let mode = CliMode::json_quiet(Selection::Partial(vec![c.clone()]));
        let ok = probes.iter().all(|w| {
            wd.write_workload(&serde_json::to_vec(&w.pcode).unwrap(), &w.elf);
            let out = run::run_cli(&wd, paths, &mode, &Env::baseline(), true);
            out.exit == Some(0) && serde_json::from_slice::<Vec<Warning>>(&out.stdout).is_ok()
        });
        if ok && !probes.is_empty() {
            k.lkm_selectable.insert(c);
        }
    }
    if k.lkm.is_empty() || k.source_names.is_empty() {
        eprintln!("HARNESS ERROR: could not read MODULES_LKM / CWE_MODULE definitions from the source tree");
        std::process::exit(2);
    }
    k
}

// -------------------------------------------------------------------------------------------------
// seeded generation of CLI modes and environments
// -------------------------------------------------------------------------------------------------

fn gen_env(seed: u64) -> Env {
    let mut r = Rng::new(seed);
    let entropy = r.below(1 << 32);
    let sched = SchedSpec::from_seed(r.next()).render();
    // swarm: each fault kind is enabled in a random subset of runs; a quarter of the runs is fault free
    let io = if r.chance(25) {
        "0".to_string()
    } else {
        let rate = |r: &mut Rng, v: u64| if r.chance(30) { 0 } else { v };
        format!("{}:{}:{}:{}:{}", r.below(1 << 32), rate(&mut r, 15), rate(&mut r, 8), rate(&mut r, 15), rate(&mut r, 8))
    };
    // a third of the runs read a simulated clock that jumps forward by up to three hours per reading
    // (the analyzer itself never looks at the clock; a change that makes results depend on time would)
    let io = if r.chance(33) { format!("{io};clock={}", r.below(1 << 32)) } else { io };
    // a fifth of the runs receive the extractor output through a pipe instead of a regular file
    let pipe = r.chance(20);
    // a third of the runs find an older, longer result file at the --out path
    let stale_out = r.chance(33);
    Env { entropy, sched, io, pipe, stale_out }
}

fn all_checks(known: &Known, lkm: bool) -> Vec<String> {
    if lkm { known.lkm.union(&known.lkm_selectable).cloned().collect() } else { known.versions.keys().cloned().collect() }
}

fn gen_selection(r: &mut Rng, known: &Known, lkm: bool) -> Selection {
    let pool = all_checks(known, lkm);
    // now and then a list that names no check at all (`--partial ""`, `--partial ","`): an empty
    // shell variable, a trailing comma left over; such a run executes nothing
    if r.chance(4) {
        return Selection::Partial(vec![String::new(); r.below(3) as usize]);
    }
    match r.below(10) {
        0..=2 => Selection::Default,
        3..=5 => {
            let mut p = pool.clone();
            r.shuffle(&mut p);
            Selection::Partial(p)
        }
        _ => {
            let n = r.range(1, 6.min(pool.len() as u64)) as usize;
            let mut p = pool.clone();
            r.shuffle(&mut p);
            p.truncate(n);
            // duplicates and empty segments collapse
            if r.chance(15) {
                let d = p[0].clone();
                p.push(d);
            }
            if r.chance(15) {
                p.insert(r.below(p.len() as u64 + 1) as usize, String::new());
            }
            Selection::Partial(p)
        }
    }
}

fn gen_mode(seed: u64, known: &Known, lkm: bool) -> CliMode {
    let mut r = Rng::new(seed);
    let selection = gen_selection(&mut r, known, lkm);
    let json = r.chance(75);
    let quiet = r.chance(60);
    let verbose = !quiet && r.chance(40);
    let statistics = !quiet && r.chance(40);
    let out_file = r.chance(40);
    let config_flag = r.chance(20);
    CliMode { selection, json, quiet, verbose, statistics, out_file, config_flag }
}

// -------------------------------------------------------------------------------------------------
// campaign
// -------------------------------------------------------------------------------------------------

#[derive(Default)]
struct Agg {
    runs: u64,
    workloads: u64,
    sched_steps: u64,
    io: [u64; 7],
    clock_runs: u64,
    clock_reads: u64,
    clock_jumps: u64,
    event_hashes: HashSet<u64>,
    distinct: HashSet<u64>,
    nontrivial: HashSet<u64>,
    fired: BTreeMap<String, u64>,
    arch: BTreeMap<String, u64>,
    modes: BTreeMap<String, u64>,
    sched_kinds: BTreeMap<String, u64>,
    gadgets: BTreeMap<String, u64>,
    multi_thread_runs: u64,
    not_judgeable: u64,
    server_runs: u64,
    server_fallbacks: u64,
    pipe_runs: u64,
    max_run_ms: u64,
    slowest: Option<(u64, String)>,
    violations: Vec<Found>,
    samples: Vec<Value>,
    log: Vec<String>,
}

struct Found {
    index: u64,
    oracle: String,
    case: Case,
    violation: Violation,
}

fn account_run(agg: &mut Agg, wl_hash: u64, mode: &CliMode, env: &Env, out: &RunOut, warnings: Option<&[Warning]>) {
    agg.runs += 1;
    if out.via_server {
        agg.server_runs += 1;
    }
    if env.pipe {
        agg.pipe_runs += 1;
    }
    if out.wall_ms > agg.max_run_ms {
        agg.max_run_ms = out.wall_ms;
        agg.slowest = Some((wl_hash, format!("{:?}", mode.selection)));
    }
    if let Some(s) = &out.stats {
        for (k, v) in [s.getrandom, s.read, s.read_short, s.read_eintr, s.write, s.write_short, s.write_eintr].iter().enumerate() {
            agg.io[k] += v;
        }
        agg.clock_reads += s.clock_reads;
        agg.clock_jumps += s.clock_jumps;
    }
    if env.io.contains(";clock=") {
        agg.clock_runs += 1;
    }
    if let Some(e) = &out.events {
        agg.sched_steps += e.sched_steps;
        agg.event_hashes.insert(fnv64(format!("{wl_hash}:{}", e.event_hash).as_bytes()));
        if e.tasks > 1 {
            agg.multi_thread_runs += 1;
        }
    }
    *agg.sched_kinds.entry(env.sched.split(':').next().unwrap_or("").to_string()).or_insert(0) += 1;
    let m = format!(
        "{}{}{}{}{}{}",
        match &mode.selection { Selection::Default => "default", Selection::Partial(_) => "partial" },
        if mode.json { "+json" } else { "+text" },
        if mode.quiet { "+quiet" } else { "" },
        if mode.verbose { "+verbose" } else { "" },
        if mode.statistics { "+statistics" } else { "" },
        if mode.out_file { "+out" } else { "" }
    );
    *agg.modes.entry(m).or_insert(0) += 1;
    if let Some(ws) = warnings {
        let out_hash = fnv64(serde_json::to_string(ws).unwrap().as_bytes());
        let h = fnv64(format!("{wl_hash}:{out_hash}:{:?}", mode.selection).as_bytes());
        agg.distinct.insert(h);
        let names: BTreeSet<&str> = ws.iter().map(|w| w.name.as_str()).collect();
        if ws.len() >= 2 && names.len() >= 2 {
            agg.nontrivial.insert(h);
        }
        for n in names {
            *agg.fired.entry(n.to_string()).or_insert(0) += 1;
        }
    }
}

fn merge(into: &mut Agg, from: Agg) {
    into.runs += from.runs;
    into.workloads += from.workloads;
    into.sched_steps += from.sched_steps;
    for k in 0..7 {
        into.io[k] += from.io[k];
    }
    into.clock_runs += from.clock_runs;
    into.clock_reads += from.clock_reads;
    into.clock_jumps += from.clock_jumps;
    into.event_hashes.extend(from.event_hashes);
    into.distinct.extend(from.distinct);
    into.nontrivial.extend(from.nontrivial);
    for (k, v) in from.fired { *into.fired.entry(k).or_insert(0) += v; }
    for (k, v) in from.arch { *into.arch.entry(k).or_insert(0) += v; }
    for (k, v) in from.modes { *into.modes.entry(k).or_insert(0) += v; }
    for (k, v) in from.sched_kinds { *into.sched_kinds.entry(k).or_insert(0) += v; }
    for (k, v) in from.gadgets { *into.gadgets.entry(k).or_insert(0) += v; }
    into.multi_thread_runs += from.multi_thread_runs;
    into.not_judgeable += from.not_judgeable;
    into.server_runs += from.server_runs;
    into.pipe_runs += from.pipe_runs;
    if from.max_run_ms > into.max_run_ms {
        into.max_run_ms = from.max_run_ms;
        into.slowest = from.slowest;
    }
    into.server_fallbacks += from.server_fallbacks;
    into.violations.extend(from.violations);
    into.samples.extend(from.samples);
    into.log.extend(from.log);
}

fn workload_for(seed: u64, index: u64) -> Workload {
    gen::generate(derive(seed, "CLI.workload", index, 0))
}

/// The runs of one workload for the given property.
fn explore_workload(ctx: &Ctx, wd: &WorkDir, wd_oneshot: &WorkDir, prop: &str, index: u64, envs_per_workload: u64, agg: &mut Agg, dump: bool) {
    let w = workload_for(ctx.seed, index);
    let pcode_bytes = serde_json::to_vec(&w.pcode).unwrap();
    let wl_hash = fnv64(&pcode_bytes) ^ fnv64(&w.elf);
    wd.write_workload(&pcode_bytes, &w.elf);
    let lkm = w.meta.lkm;
    agg.workloads += 1;
    *agg.arch.entry(format!("{}{}", w.meta.arch, if lkm { "(lkm)" } else { "" })).or_insert(0) += 1;
    for g in &w.meta.gadgets {
        *agg.gadgets.entry(g.clone()).or_insert(0) += 1;
    }
    // Fast path = long-lived server process; every anomaly is judged again from fresh processes.
    let evaluate = |ctx: &Ctx, wd: &WorkDir, kind: &str, case: &Case, lkm: bool| -> Result<Eval, (Violation, Vec<RunOut>)> {
        match evaluate(ctx, wd, kind, case, lkm) {
            Err((v, outs)) if outs.iter().any(|o| o.via_server) => match evaluate(ctx, wd_oneshot, kind, case, lkm) {
                Ok(ev) => {
                    if v.class.contains("no_termination") {
                        // the one verdict that rests on real time: the run was merely slow (3.6)
                        SLOW_RUNS.fetch_add(1, Ordering::SeqCst);
                    } else {
                        DISCREPANCIES.fetch_add(1, Ordering::SeqCst);
                        eprintln!("note: server-mode verdict {} of workload {index} did not reproduce in fresh processes ({})", v.class, v.detail);
                        for o in outs.iter().filter(|o| o.via_server && o.exit != Some(0)) {
                            let head: Vec<&str> = o.stderr.lines().filter(|l| !l.trim_start().starts_with("at ")).take(8).collect();
                            eprintln!("      server-mode run: exit={:?} stderr: {}", o.exit, head.join(" | "));
                        }
                    }
                    Ok(ev)
                }
                Err(e) => Err(e),
            },
            other => other,
        }
    };
    let mut found = |agg: &mut Agg, oracle: &str, case: Case, v: Violation| {
        if v.class.starts_with("not_judgeable") {
            agg.not_judgeable += 1;
            return;
        }
        FOUND.fetch_add(1, Ordering::SeqCst);
        agg.violations.push(Found { index, oracle: oracle.to_string(), case, violation: v });
    };
    match prop {
        "C21" => {
            for k in 0..envs_per_workload {
                let mode = gen_mode(derive(ctx.seed, "C21.mode", index, k), &ctx.known, lkm);
                let env = if k == 0 { Env::baseline() } else { gen_env(derive(ctx.seed, "C21.env", index, k)) };
                let case = Case::Single { mode: mode.clone(), env: env.clone() };
                match evaluate(ctx, wd, "c21", &case, lkm) {
                    Ok(ev) => {
                        account_run(agg, wl_hash, &mode, &env, &ev.outs[0], Some(&ev.warnings[0]));
                        if dump {
                            agg.log.push(format!("{index} {k} ok {:016x} {}", fnv64(&ev.outs[0].stdout), ev.outs[0].events.as_ref().map_or(String::new(), |e| e.event_hash.clone())));
                        }
                        if agg.samples.len() < 2 && ev.warnings[0].len() >= 3 && k > 0 {
                            agg.samples.push(json!({"workload_index": index, "arch": w.meta.arch, "kernel_module": lkm, "functions": w.meta.functions, "blocks": w.meta.blocks, "defs": w.meta.defs,
                                "gadgets": w.meta.gadgets, "argv": mode.argv("w.elf", "w.json", "out.txt", "config.json"), "env": env,
                                "io_faults_injected": ev.outs[0].stats.as_ref().map(|s| s.injected.clone()), "scheduler_steps": ev.outs[0].events.as_ref().map(|e| e.sched_steps),
                                "warnings": ev.warnings[0].iter().map(|x| format!("{} {}", x.name, x.addresses.join(","))).collect::<Vec<_>>(), "verdict": "holds"}));
                        }
                    }
                    Err((v, outs)) => {
                        account_run(agg, wl_hash, &mode, &env, &outs[0], None);
                        if dump {
                            agg.log.push(format!("{index} {k} {}", v.class));
                        }
                        found(agg, "c21", case, v);
                    }
                }
            }
        }
        "C22" => {
            // reference: every check, baseline environment
            let all = CliMode::json_quiet(Selection::Partial(all_checks(&ctx.known, lkm)));
            for k in 0..envs_per_workload {
                let mut r = Rng::new(derive(ctx.seed, "C22.sel", index, k));
                let mut mode = gen_mode(r.next(), &ctx.known, lkm);
                // the differential needs a parseable JSON stream
                mode.json = true;
                let env = gen_env(derive(ctx.seed, "C22.env", index, k));
                let single = Case::Single { mode: mode.clone(), env: env.clone() };
                match evaluate(ctx, wd, "c22_run", &single, lkm) {
                    Ok(ev) => account_run(agg, wl_hash, &mode, &env, &ev.outs[0], Some(&ev.warnings[0])),
                    Err((v, outs)) => {
                        account_run(agg, wl_hash, &mode, &env, &outs[0], None);
                        found(agg, "c22_run", single, v);
                        continue;
                    }
                }
                if k % 2 == 0 {
                    let pair = Case::Pair { mode_a: all.clone(), env_a: Env::baseline(), mode_b: mode.clone(), env_b: env.clone() };
                    match evaluate(ctx, wd, "c22_diff", &pair, lkm) {
                        Ok(ev) => {
                            account_run(agg, wl_hash, &all, &Env::baseline(), &ev.outs[0], Some(&ev.warnings[0]));
                            account_run(agg, wl_hash, &mode, &env, &ev.outs[1], Some(&ev.warnings[1]));
                            if agg.samples.len() < 2 && ev.warnings[0].len() >= 3 {
                                agg.samples.push(json!({"workload_index": index, "arch": w.meta.arch, "kernel_module": lkm, "selection": mode.selection, "env": env,
                                    "checks_executed_in_order": ev.outs[1].events.as_ref().map(|e| e.modules.clone()),
                                    "warnings_all_checks_run": ev.warnings[0].len(), "warnings_partial_run": ev.warnings[1].len(), "verdict": "holds"}));
                            }
                        }
                        Err((v, outs)) => {
                            for o in &outs {
                                account_run(agg, wl_hash, &mode, &env, o, None);
                            }
                            found(agg, "c22_diff", pair, v);
                        }
                    }
                }
            }
        }
        "C23" => {
            let all = CliMode::json_quiet(Selection::Partial(all_checks(&ctx.known, lkm)));
            let mut other = gen_mode(derive(ctx.seed, "C23.mode", index, 0), &ctx.known, lkm);
            if !other.quiet && !other.out_file && !other.json {
                other.out_file = true; // text warnings mixed with log lines cannot be separated reliably
            }
            for k in 1..=envs_per_workload {
                let env = gen_env(derive(ctx.seed, "C23.env", index, k));
                // every third perturbation changes one knob only
                let env = match k % 4 {
                    1 => Env { entropy: env.entropy, ..Env::baseline() },
                    2 => {
                        // schedule only: a pre-empting scheduler for the collector threads
                        let mut r = Rng::new(derive(ctx.seed, "C23.sched", index, k));
                        let sched = if r.chance(50) { SchedSpec::Random(r.next()) } else { SchedSpec::Pct { seed: r.next(), depth: 1 + r.below(4) as u32, span: 200 } };
                        Env { sched: sched.render(), ..Env::baseline() }
                    }
                    _ => env,
                };
                let mode = if k % 2 == 1 { all.clone() } else { other.clone() };
                let pair = Case::Pair { mode_a: mode.clone(), env_a: Env::baseline(), mode_b: mode.clone(), env_b: env.clone() };
                match evaluate(ctx, wd, "c23", &pair, lkm) {
                    Ok(ev) => {
                        let ws: Option<Vec<Warning>> = if mode.json && mode.quiet && !mode.out_file { serde_json::from_slice(&ev.outs[1].stdout).ok() } else { None };
                        account_run(agg, wl_hash, &mode, &Env::baseline(), &ev.outs[0], None);
                        account_run(agg, wl_hash, &mode, &env, &ev.outs[1], ws.as_deref());
                        if dump {
                            agg.log.push(format!("{index} {k} ok {:016x}", fnv64(&ev.outs[1].stdout)));
                        }
                        if agg.samples.len() < 2 && ws.as_ref().map_or(0, |w| w.len()) >= 3 {
                            agg.samples.push(json!({"workload_index": index, "arch": w.meta.arch, "kernel_module": lkm, "argv": mode.argv("w.elf", "w.json", "out.txt", "config.json"),
                                "env_a": Env::baseline(), "env_b": env, "checks_executed_in_order_a": ev.outs[0].events.as_ref().map(|e| e.modules.clone()),
                                "checks_executed_in_order_b": ev.outs[1].events.as_ref().map(|e| e.modules.clone()), "warning_bytes": ev.outs[1].stdout.len(), "verdict": "identical output"}));
                        }
                    }
                    Err((v, outs)) => {
                        for o in &outs {
                            account_run(agg, wl_hash, &mode, &env, o, None);
                        }
                        if dump {
                            agg.log.push(format!("{index} {k} {}", v.class));
                        }
                        found(agg, "c23", pair, v);
                    }
                }
            }
        }
        _ => unreachable!(),
    }
}

fn write_replay(ctx: &Ctx, prop: &str, f: &Found, pcode: &Value, elf: &[u8], lkm: bool, meta: Value, name: &str) -> String {
    let dir = format!("{}/replays/{prop}", ctx.verif_dir);
    std::fs::create_dir_all(&dir).unwrap();
    let rp = ReplayFile {
        property: prop.to_string(),
        oracle: f.oracle.clone(),
        case: f.case.clone(),
        lkm,
        violation: f.violation.clone(),
        meta,
        found_by: json!({"VERIF_SEED": ctx.seed, "workload_index": f.index}),
        pcode: pcode.clone(),
        elf_hex: to_hex(elf),
    };
    let path = format!("{dir}/{name}.json");
    std::fs::write(&path, serde_json::to_string(&rp).unwrap()).unwrap();
    path
}

fn simplify_case(ctx: &Ctx, wd: &WorkDir, oracle_kind: &str, case: &Case, lkm: bool, class: &str, budget: &mut usize) -> Case {
    let mut cur = case.clone();
    let still = |c: &Case, budget: &mut usize| -> bool {
        if *budget == 0 {
            return false;
        }
        *budget -= 1;
        matches!(evaluate(ctx, wd, oracle_kind, c, lkm), Err((v, _)) if v.class == class)
    };
    let simpler_envs = |e: &Env| -> Vec<Env> {
        let mut v = Vec::new();
        if e.io != "0" { v.push(Env { io: "0".into(), ..e.clone() }); }
        if let Some(p) = e.io.find(";clock=") {
            v.push(Env { io: e.io[..p].to_string(), ..e.clone() });
            if !e.io.starts_with("0;") { v.push(Env { io: format!("0{}", &e.io[p..]), ..e.clone() }); }
        }
        if e.pipe { v.push(Env { pipe: false, ..e.clone() }); }
        if e.stale_out { v.push(Env { stale_out: false, ..e.clone() }); }
        if e.sched != "sticky" { v.push(Env { sched: "sticky".into(), ..e.clone() }); }
        if e.entropy != 0 { v.push(Env { entropy: 0, ..e.clone() }); }
        v
    };
    let simpler_modes = |m: &CliMode| -> Vec<CliMode> {
        let mut v = Vec::new();
        if m.verbose { v.push(CliMode { verbose: false, ..m.clone() }); }
        if m.statistics { v.push(CliMode { statistics: false, ..m.clone() }); }
        if m.config_flag { v.push(CliMode { config_flag: false, ..m.clone() }); }
        if m.out_file { v.push(CliMode { out_file: false, quiet: true, verbose: false, statistics: false, ..m.clone() }); }
        if !m.json { v.push(CliMode { json: true, ..m.clone() }); }
        if let Selection::Partial(list) = &m.selection {
            for i in 0..list.len() {
                if list.len() > 1 {
                    let mut l = list.clone();
                    l.remove(i);
                    v.push(CliMode { selection: Selection::Partial(l), ..m.clone() });
                }
            }
        }
        v
    };
    let mut progress = true;
    while progress && *budget > 0 {
        progress = false;
        let cands: Vec<Case> = match &cur {
            Case::Single { mode, env } => simpler_envs(env).into_iter().map(|e| Case::Single { mode: mode.clone(), env: e })
                .chain(simpler_modes(mode).into_iter().map(|m| Case::Single { mode: m, env: env.clone() })).collect(),
            Case::Pair { mode_a, env_a, mode_b, env_b } => {
                let mut v: Vec<Case> = simpler_envs(env_b).into_iter().filter(|e| oracle_kind != "c23" || e != env_a)
                    .map(|e| Case::Pair { mode_a: mode_a.clone(), env_a: env_a.clone(), mode_b: mode_b.clone(), env_b: e }).collect();
                if oracle_kind == "c23" {
                    v.extend(simpler_modes(mode_a).into_iter().map(|m| Case::Pair { mode_a: m.clone(), env_a: env_a.clone(), mode_b: m, env_b: env_b.clone() }));
                } else {
                    v.extend(simpler_modes(mode_b).into_iter().map(|m| Case::Pair { mode_a: mode_a.clone(), env_a: env_a.clone(), mode_b: m, env_b: env_b.clone() }));
                }
                v
            }
            Case::ModuleVersions { .. } => vec![],
        };
        for c in cands {
            if still(&c, budget) {
                cur = c;
                progress = true;
                break;
            }
        }
    }
    cur
}

/// Turn a seeded I/O fault stream into the explicit list that was injected, then drop faults.
fn explicit_io(ctx: &Ctx, wd: &WorkDir, oracle_kind: &str, case: &Case, lkm: bool, class: &str, budget: &mut usize) -> Case {
    let Case::Single { mode, env } = case else { return case.clone() };
    let clock_suffix = env.io.find(";clock=").map(|p| env.io[p..].to_string()).unwrap_or_default();
    if env.io == "0" || env.io.starts_with("list:") || env.io.starts_with("0;") {
        return case.clone();
    }
    let Err((_, outs)) = evaluate(ctx, wd, oracle_kind, case, lkm) else { return case.clone() };
    let Some(stats) = outs[0].stats.as_ref() else { return case.clone() };
    let mut faults: Vec<String> = stats.injected.split(',').filter(|s| !s.is_empty()).map(|s| s.to_string()).collect();
    let mk = |f: &[String]| Case::Single { mode: mode.clone(), env: Env { io: format!("list:{}{clock_suffix}", f.join(",")), ..env.clone() } };
    if !matches!(evaluate(ctx, wd, oracle_kind, &mk(&faults), lkm), Err((v, _)) if v.class == class) {
        return case.clone();
    }
    let mut i = faults.len();
    while i > 0 && *budget > 0 {
        i -= 1;
        let mut f = faults.clone();
        f.remove(i);
        *budget -= 1;
        if matches!(evaluate(ctx, wd, oracle_kind, &mk(&f), lkm), Err((v, _)) if v.class == class) {
            faults = f;
        }
    }
    mk(&faults)
}

pub fn run_check(prop: &str, tier: &str, workloads_override: Option<u64>, dump: bool) -> i32 {
    if !["C21", "C22", "C23"].contains(&prop) {
        eprintln!("unknown property {prop}");
        return 2;
    }
    let verif_dir = std::env::var("VERIF_DIR").unwrap_or_else(|_| "/verif".into());
    let paths = Paths::from_env();
    let seed = simcommon::verif_seed();
    let threads: u64 = std::env::var("VERIF_THREADS").ok().and_then(|s| s.parse().ok()).unwrap_or(16);
    let t0 = std::time::Instant::now();
    let work_root = PathBuf::from(format!("{verif_dir}/work/{}", std::process::id()));
    let known = discover(&paths, &verif_dir);
    let ctx = Ctx { paths, known, seed, verif_dir: verif_dir.clone(), findings: load_findings(&verif_dir) };
    let (mut workloads, envs) = match (prop, tier) {
        ("C21", "thorough") => (40_000u64, 4u64),
        ("C21", _) => (3000, 3),
        ("C22", "thorough") => (20_000, 4),
        ("C22", _) => (600, 2),
        ("C23", "thorough") => (25_000, 8),
        (_, _) => (2000, 4),
    };
    if let Some(n) = workloads_override {
        workloads = n;
    }
    println!("{prop} tier={tier} VERIF_SEED={seed} workloads={workloads} environments_per_workload={envs} threads={threads}");
    println!("checks of this build: {:?}", ctx.known.versions.keys().collect::<Vec<_>>());
    println!("kernel-module subset: {:?}; selectable on kernel modules besides: {:?}", ctx.known.lkm, ctx.known.lkm_selectable);

    // module-version listing (C22): under several hash seeds
    let mut total = Agg::default();
    if prop == "C22" {
        let wd = WorkDir::new(&work_root.join("mv"), &ctx.paths);
        for k in 0..12u64 {
            // the listing does not depend on whatever else is on the command line
            let mut r = Rng::new(derive(ctx.seed, "C22.mv", k, 0));
            let mut extra: Vec<String> = Vec::new();
            if k >= 4 {
                if r.chance(60) {
                    let mut p: Vec<String> = ctx.known.versions.keys().cloned().collect();
                    r.shuffle(&mut p);
                    p.truncate(r.range(1, 4) as usize);
                    extra.push("--partial".into());
                    extra.push(p.join(","));
                }
                if r.chance(40) { extra.push("--json".into()); }
                if r.chance(40) { extra.push("--quiet".into()); }
                if r.chance(30) { extra.push("--statistics".into()); extra.retain(|a| a != "--quiet"); }
            }
            let case = Case::ModuleVersions { env: Env { entropy: k * 7919, ..Env::baseline() }, extra };
            match evaluate(&ctx, &wd, "module_versions", &case, false) {
                Ok(_) => total.runs += 1,
                Err((v, _)) => {
                    total.violations.push(Found { index: k, oracle: "module_versions".into(), case, violation: v });
                    break;
                }
            }
        }
    }

    // SIM_FROM: start at this workload index (debugging aid: re-run one workload of a campaign)
    let first: u64 = std::env::var("SIM_FROM").ok().and_then(|s| s.parse().ok()).unwrap_or(0);
    let workloads = workloads + first;
    let next = AtomicU64::new(first);
    let results: Mutex<Vec<Agg>> = Mutex::new(Vec::new());
    std::thread::scope(|s| {
        for t in 0..threads {
            let ctx = &ctx;
            let next = &next;
            let results = &results;
            let work_root = &work_root;
            s.spawn(move || {
                let use_server = std::env::var("SIM_NO_SERVER").is_err();
                let wd = WorkDir::new(&work_root.join(format!("w{t}")), &ctx.paths);
                let wd = if use_server { wd.with_server() } else { wd };
                let wd_oneshot = WorkDir::new(&work_root.join(format!("w{t}")), &ctx.paths);
                let mut agg = Agg::default();
                loop {
                    let i = next.fetch_add(1, Ordering::SeqCst);
                    if i >= workloads || FOUND.load(Ordering::SeqCst) >= 12 {
                        break;
                    }
                    explore_workload(ctx, &wd, &wd_oneshot, prop, i, envs, &mut agg, dump);
                    agg.server_fallbacks = wd.server_fallbacks.get();
                }
                results.lock().unwrap().push(agg);
            });
        }
    });
    for a in results.into_inner().unwrap() {
        merge(&mut total, a);
    }
    total.violations.sort_by_key(|f| f.index);
    total.samples.sort_by_key(|s| s["workload_index"].as_u64().unwrap_or(0));
    total.samples.truncate(3);
    if dump {
        total.log.sort_by_key(|l| {
            let mut it = l.split(' ');
            (it.next().and_then(|x| x.parse::<u64>().ok()).unwrap_or(0), it.next().and_then(|x| x.parse::<u64>().ok()).unwrap_or(0))
        });
        for l in &total.log {
            println!("LOG {l}");
        }
    }

    // ---- violations: known findings, minimisation, replay files ----
    let mut lines = Vec::new();
    let mut known_lines = BTreeSet::new();
    let mut seen_classes: BTreeSet<String> = BTreeSet::new();
    let mut unlisted = 0u64;
    let mut slow_runs = 0u64;
    let wd = WorkDir::new(&work_root.join("min"), &ctx.paths);
    for f in &total.violations {
        let class = f.violation.class.clone();
        if let Some(k) = ctx.findings.iter().find(|k| k.property == prop && k.status == "open" && class.contains(&k.key)) {
            known_lines.insert(format!("KNOWN-FINDING: property={prop} {} [{}]", k.description, k.key));
            continue;
        }
        unlisted += 1;
        if !seen_classes.insert(class.clone()) || seen_classes.len() > 5 {
            continue;
        }
        // materialise, confirm, minimise, confirm again
        let (pcode, elf, lkm, meta) = if f.oracle == "module_versions" {
            (json!(null), vec![], false, json!({}))
        } else {
            let w = workload_for(ctx.seed, f.index);
            let m = json!({"arch": w.meta.arch, "elf": w.meta.elf_type, "functions": w.meta.functions, "gadgets": w.meta.gadgets});
            (w.pcode, w.elf, w.meta.lkm, m)
        };
        let mut case = f.case.clone();
        let mut min_pcode = pcode.clone();
        if f.oracle != "module_versions" {
            wd.write_workload(&serde_json::to_vec(&pcode).unwrap(), &elf);
            let confirm = evaluate(&ctx, &wd, &f.oracle, &case, lkm);
            if !matches!(&confirm, Err((v, _)) if v.class == class) {
                if class == "no_termination" {
                    // the only verdict that rests on real time: a run that was merely slow (machine
                    // under load) is not a violation; it is counted and shown in the evidence
                    slow_runs += 1;
                    unlisted -= 1;
                    seen_classes.remove(&class);
                    println!("note: workload {} exceeded the tripwire once but completed when confirmed: counted as slow run", f.index);
                    continue;
                }
                eprintln!("HARNESS ERROR: violation {class} of workload {} did not reproduce in a fresh process", f.index);
                return 2;
            }
            let mut budget = if tier == "thorough" { 1500usize } else { 500 };
            if class == "no_termination" {
                // every failing candidate costs a full tripwire
                budget = 40;
                wd.tripwire_ms.set(5_000);
            } else {
                wd.tripwire_ms.set(run::TRIPWIRE_MS);
            }
            case = simplify_case(&ctx, &wd, &f.oracle, &case, lkm, &class, &mut budget);
            case = explicit_io(&ctx, &wd, &f.oracle, &case, lkm, &class, &mut budget);
            let mut fails = |cand: &Value| -> bool {
                wd.write_workload(&serde_json::to_vec(cand).unwrap(), &elf);
                matches!(evaluate(&ctx, &wd, &f.oracle, &case, lkm), Err((v, _)) if v.class == class)
            };
            min_pcode = minimise::minimise_pcode(&pcode, &mut fails, budget);
            wd.tripwire_ms.set(run::TRIPWIRE_MS);
            wd.write_workload(&serde_json::to_vec(&min_pcode).unwrap(), &elf);
            if !matches!(evaluate(&ctx, &wd, &f.oracle, &case, lkm), Err((v, _)) if v.class == class) {
                eprintln!("HARNESS ERROR: minimised workload does not reproduce {class}");
                return 2;
            }
        }
        let (ns, nb, nd) = if min_pcode.is_null() { (0, 0, 0) } else { minimise::count(&min_pcode) };
        let mut meta = meta;
        meta["minimised_to"] = json!({"functions": ns, "blocks": nb, "defs": nd});
        let mf = Found { index: f.index, oracle: f.oracle.clone(), case, violation: f.violation.clone() };
        let short: String = class.chars().filter(|c| c.is_ascii_alphanumeric() || *c == '_').take(40).collect();
        let path = write_replay(&ctx, prop, &mf, &min_pcode, &elf, lkm, meta, &format!("{short}_{}", f.index));
        lines.push(format!("VIOLATION property={prop} replay={path}"));
        println!("violation class: {class}\n  {}", f.violation.detail);
    }
    let _ = std::fs::remove_dir_all(&work_root);

    // ---- evidence ----
    let wall = t0.elapsed().as_secs_f64();
    let names = ["getrandom_calls", "read_calls", "read_short", "read_eintr", "write_calls", "write_short", "write_eintr"];
    let mut faults = serde_json::Map::new();
    for (k, n) in names.iter().enumerate() {
        faults.insert(n.to_string(), json!(total.io[k]));
    }
    faults.insert("hash_seed_perturbation_runs".into(), json!(total.runs));
    faults.insert("scheduler_kinds".into(), json!(total.sched_kinds));
    faults.insert("extractor_output_delivered_through_a_pipe_runs".into(), json!(total.pipe_runs));
    faults.insert("runs_under_a_jumping_simulated_clock".into(), json!(total.clock_runs));
    faults.insert("clock_readings_during_the_runs".into(), json!(total.clock_reads));
    faults.insert("clock_jumps_injected".into(), json!(total.clock_jumps));
    let mut extra = serde_json::Map::new();
    extra.insert("workloads".into(), json!(total.workloads));
    extra.insert("runs_per_hour".into(), json!((total.runs as f64 / wall * 3600.0) as u64));
    extra.insert("simulated_time".into(), json!(format!("{} scheduler steps, {} read/write calls; the (simulated, jumping) clock was read {} times in {} runs that had one (once per run by the simulation runtime; the analyzer has no clock reading on this path)", total.sched_steps, total.io[1] + total.io[4], total.clock_reads, total.clock_runs)));
    extra.insert("fault_kinds".into(), Value::Object(faults));
    extra.insert("distinct_interleavings".into(), json!(total.event_hashes.len()));
    extra.insert("runs_with_more_than_one_thread".into(), json!(total.multi_thread_runs));
    extra.insert("warnings_by_name_runs".into(), json!(total.fired));
    extra.insert("architectures".into(), json!(total.arch));
    extra.insert("cli_modes".into(), json!(total.modes));
    extra.insert("gadgets_planted".into(), json!(total.gadgets));
    extra.insert("runs_not_judgeable_because_c21_failed".into(), json!(total.not_judgeable));
    extra.insert("runs_served_by_long_lived_server_process".into(), json!(total.server_runs));
    extra.insert("runs_in_fresh_processes".into(), json!(total.runs - total.server_runs));
    extra.insert("server_mode_verdicts_not_confirmed_by_fresh_process".into(), json!(DISCREPANCIES.load(Ordering::SeqCst)));
    extra.insert("runs_that_took_the_server_down".into(), json!(total.server_fallbacks));
    extra.insert("slow_runs_over_tripwire_that_completed_on_confirmation".into(), json!(slow_runs + SLOW_RUNS.load(Ordering::SeqCst)));
    extra.insert("slowest_run_real_ms_diagnostic".into(), json!(total.max_run_ms));
    extra.insert("known_findings_seen".into(), json!(known_lines.iter().collect::<Vec<_>>()));
    extra.insert("components".into(), json!({
        "real": ["src/caller/src/main.rs (argument parsing, check selection, sorting, printing)", "all of cwe_checker_lib (lifting, normalisation, CFG, fixpoints, every check, utils/log.rs)", "goblin ELF parsing", "shipped config.json / lkm_config.json"],
        "stub": ["std::thread in utils/log.rs -> shuttle::thread (scheduler-owned)", "crossbeam-channel -> /verif/sim/chan", "getrandom/read/write -> libsimenv.so", "Ghidra extractor -> generated P-Code project via --pcode-raw"]}));
    let rule = match prop {
        "C21" => "one evaluation = one fresh process of the simulated CLI on a generated (P-Code project, ELF) pair under a seeded (CLI mode, hash seed, thread schedule, syscall-fault) environment; distinct = distinct (workload, selection, warning output); non-trivial = the output holds >= 2 warnings of >= 2 different names",
        "C22" => "one evaluation = one simulated CLI run with a seeded check selection (default / all / random subset with duplicates and empty segments; kernel-module inputs) under a seeded environment, plus the all-checks reference run of the differential and 8 --module-versions runs; distinct/non-trivial as for C21",
        _ => "one evaluation = one simulated CLI run; every workload is run in the baseline environment and in perturbed environments (hash seed only / schedule / syscall faults / all) and the warning output is compared byte for byte; distinct = distinct (workload, selection, output); non-trivial = output with >= 2 warnings of >= 2 names",
    };
    let ev = simcommon::evidence::Evidence {
        property_id: prop.to_string(),
        tier: tier.to_string(),
        seed,
        evaluations: total.runs,
        distinct_nontrivial: total.nontrivial.len() as u64,
        rule: rule.to_string(),
        samples: total.samples.clone(),
        extra,
        assumptions: vec![
            "generated workloads stay inside the envelope of the P-Code extractor (documented in sim/simctl/src/gen.rs)".into(),
            "the channel stand-in and shuttle threads behave like crossbeam-channel and std::thread (C25 engine B cross-checks this on the real crates)".into(),
            "for kernel-module inputs only checks of the kernel-module subset are selected: lkm_config.json ships no configuration for the others".into(),
        ],
        wall_s: wall,
        violations: unlisted,
    };
    if let Err(e) = ev.write(&format!("{verif_dir}/evidence/{prop}.json")) {
        eprintln!("HARNESS ERROR: cannot write evidence: {e}");
        return 2;
    }
    println!("{prop}: {} runs on {} workloads, {} distinct non-trivial outputs, {} distinct interleavings, faults injected: read_short={} read_eintr={} write_short={} write_eintr={}, {:.1}s",
        total.runs, total.workloads, total.nontrivial.len(), total.event_hashes.len(), total.io[2], total.io[3], total.io[5], total.io[6], wall);
    for l in &known_lines {
        println!("{l}");
    }
    if lines.is_empty() {
        // reach: a dead fault kind or generator branch must not pass silently
        let mut dead = Vec::new();
        if workloads >= 200 {
            for (k, n) in names.iter().enumerate() {
                if total.io[k] == 0 { dead.push(n.to_string()); }
            }
            if total.multi_thread_runs == 0 { dead.push("collector threads".into()); }
            if total.fired.len() < 8 { dead.push(format!("only {} warning names fired", total.fired.len())); }
            if total.arch.len() < 4 { dead.push("architecture profiles".into()); }
        }
        if !dead.is_empty() {
            eprintln!("HARNESS ERROR: reach counters stuck at zero: {dead:?}");
            return 2;
        }
        if DISCREPANCIES.load(Ordering::SeqCst) > 0 {
            eprintln!("HARNESS ERROR: {} verdicts of the server fast path were not confirmed by fresh processes", DISCREPANCIES.load(Ordering::SeqCst));
            return 2;
        }
        if total.not_judgeable > 0 && prop != "C21" {
            println!("note: {} runs could not be judged because they did not terminate normally (see C21)", total.not_judgeable);
        }
        if known_lines.is_empty() {
            println!("{prop}: property held on everything explored");
        } else {
            println!("{prop}: no violation besides the {} known finding(s) listed above", known_lines.len());
        }
        0
    } else {
        for l in &lines {
            println!("{l}");
        }
        1
    }
}

pub fn replay(path: &str) -> i32 {
    let text = match std::fs::read_to_string(path) {
        Ok(t) => t,
        Err(e) => {
            eprintln!("cannot read {path}: {e}");
            return 2;
        }
    };
    let rp: ReplayFile = match serde_json::from_str(&text) {
        Ok(r) => r,
        Err(e) => {
            eprintln!("cannot parse {path}: {e}");
            return 2;
        }
    };
    let verif_dir = std::env::var("VERIF_DIR").unwrap_or_else(|_| "/verif".into());
    let paths = Paths::from_env();
    let work_root = PathBuf::from(format!("{verif_dir}/work/{}", std::process::id()));
    let known = discover(&paths, &verif_dir);
    let ctx = Ctx { paths, known, seed: simcommon::verif_seed(), verif_dir: verif_dir.clone(), findings: load_findings(&verif_dir) };
    let wd = WorkDir::new(&work_root.join("replay"), &ctx.paths);
    if !rp.pcode.is_null() {
        wd.write_workload(&serde_json::to_vec(&rp.pcode).unwrap(), &from_hex(&rp.elf_hex));
    }
    let res = evaluate(&ctx, &wd, &rp.oracle, &rp.case, rp.lkm);
    let code = match res {
        Err((v, outs)) => {
            println!("replayed: class={}\n  {}", v.class, v.detail);
            for (i, o) in outs.iter().enumerate() {
                println!("run {i}: exit={:?} checks executed={:?}", o.exit, o.events.as_ref().map(|e| e.modules.clone()));
                let head: Vec<&str> = o.stderr.lines().filter(|l| !l.trim_start().starts_with("at ") && !l.trim_start().chars().next().map_or(false, |c| c.is_ascii_digit())).take(6).collect();
                if !head.is_empty() {
                    println!("  stderr: {}", head.join(" | "));
                }
                if std::env::var("SIM_DUMP_STDERR").is_ok() {
                    println!("---- full stderr of run {i} ----\n{}\n----", o.stderr);
                }
            }
            if v.class != rp.violation.class {
                println!("note: recorded class was {}", rp.violation.class);
            }
            println!("VIOLATION property={} replay={path}", rp.property);
            1
        }
        Ok(_) => {
            println!("replay: property holds on this input and environment (recorded violation: {})", rp.violation.class);
            0
        }
    };
    let _ = std::fs::remove_dir_all(&work_root);
    code
}

/// Shrink the workload of an existing replay file further (offline tool).
pub fn minimise_replay(path: &str, out_path: &str, budget: usize, tripwire_ms: u64) -> i32 {
    let rp: ReplayFile = serde_json::from_str(&std::fs::read_to_string(path).expect("cannot read replay")).expect("cannot parse replay");
    let verif_dir = std::env::var("VERIF_DIR").unwrap_or_else(|_| "/verif".into());
    let paths = Paths::from_env();
    let work_root = PathBuf::from(format!("{verif_dir}/work/{}", std::process::id()));
    let known = discover(&paths, &verif_dir);
    let ctx = Ctx { paths, known, seed: simcommon::verif_seed(), verif_dir: verif_dir.clone(), findings: vec![] };
    let wd = WorkDir::new(&work_root.join("min"), &ctx.paths);
    wd.tripwire_ms.set(tripwire_ms);
    let elf = from_hex(&rp.elf_hex);
    let class = rp.violation.class.clone();
    let mut n = 0usize;
    let mut fails = |cand: &Value| -> bool {
        n += 1;
        wd.write_workload(&serde_json::to_vec(cand).unwrap(), &elf);
        matches!(evaluate(&ctx, &wd, &rp.oracle, &rp.case, rp.lkm), Err((v, _)) if v.class == class)
    };
    if !fails(&rp.pcode) {
        eprintln!("the replay does not reproduce {class}: {:?}", evaluate(&ctx, &wd, &rp.oracle, &rp.case, rp.lkm).map(|_| ()).map_err(|e| e.0));
        return 2;
    }
    let min = minimise::minimise_pcode(&rp.pcode, &mut fails, budget);
    let (ns, nb, nd) = minimise::count(&min);
    println!("minimised to {ns} functions, {nb} blocks, {nd} defs after {n} evaluations");
    let mut meta = rp.meta.clone();
    meta["minimised_to"] = json!({"functions": ns, "blocks": nb, "defs": nd});
    let out = ReplayFile { pcode: min, meta, ..rp };
    std::fs::write(out_path, serde_json::to_string(&out).unwrap()).unwrap();
    let _ = std::fs::remove_dir_all(&work_root);
    0
}
