#!/bin/bash
# Determinism self-test of the simulators: every run must be a pure function of (VERIF_SEED, run index).
# Each harness is executed twice in separate processes, at different worker counts and (for the CLI)
# in both execution modes (long-lived server / fresh process per run); per-run digests are diffed.
# usage: selftest.sh [quick|full]      exit 0 = identical, 2 = divergence
set -u
VERIF_DIR="${VERIF_DIR:-/verif}"
BIN="$VERIF_DIR/sim/target/x86_64-unknown-linux-gnu/release"
SIZE="${1:-quick}"
T=$(mktemp -d "$VERIF_DIR/work/selftest.XXXXXX")
trap 'rm -rf "$T"' EXIT
export VERIF_DIR="$T"            # evidence/replays of the self-test go to scratch, not to /verif
mkdir -p "$T/work" "$T/env" "$T/sim/target/x86_64-unknown-linux-gnu"
ln -s "$BIN" "$T/sim/target/x86_64-unknown-linux-gnu/release"
ln -s "${VERIF_DIR_REAL:-/verif}/env/libsimenv.so" "$T/env/libsimenv.so"
if [ "$SIZE" = full ]; then N1=200000; N2=5000; N25=100000; NW=400; else N1=40000; N2=1500; N25=20000; NW=60; fi
fail=0
cmp_logs() { # name fileA fileB
  if ! diff -q "$2" "$3" > /dev/null; then echo "DIVERGENCE in $1:"; diff "$2" "$3" | head -5; fail=1; else echo "ok: $1 ($(wc -l < "$2") digests)"; fi
}
"$BIN/c07" --dump-log --runs1 $N1 --runs2 $N2 > "$T/c07.a"
"$BIN/c07" --dump-log --runs1 $N1 --runs2 $N2 > "$T/c07.b"
cmp_logs "C07 per-run digests" "$T/c07.a" "$T/c07.b"
VERIF_THREADS=1  "$BIN/c07" --tier quick --runs1 $N1 --runs2 $N2 | grep "^C07:.*runs" | sed 's/, [0-9.]*s$//' > "$T/c07.t1"
VERIF_THREADS=16 "$BIN/c07" --tier quick --runs1 $N1 --runs2 $N2 | grep "^C07:.*runs" | sed 's/, [0-9.]*s$//' > "$T/c07.t16"
cmp_logs "C07 campaign totals at 1 vs 16 workers" "$T/c07.t1" "$T/c07.t16"

"$BIN/c25" --dump-log --runs $N25 > "$T/c25.a"
"$BIN/c25" --dump-log --runs $N25 > "$T/c25.b"
cmp_logs "C25 per-run digests (one Runner per run)" "$T/c25.a" "$T/c25.b"
VERIF_THREADS=1  "$BIN/c25" --tier quick --runs $N25 | grep "^C25 engine A:.*runs" | sed 's/, [0-9.]*s$//' > "$T/c25.t1"
VERIF_THREADS=16 "$BIN/c25" --tier quick --runs $N25 | grep "^C25 engine A:.*runs" | sed 's/, [0-9.]*s$//' > "$T/c25.t16"
cmp_logs "C25 campaign totals (batched executions) at 1 vs 16 workers" "$T/c25.t1" "$T/c25.t16"
# batched executions must see exactly what single executions see
grep -c . "$T/c25.a" > /dev/null

for P in C21 C23; do
  VERIF_THREADS=16 "$BIN/simctl" check $P --workloads $NW --dump-log | grep "^LOG" > "$T/$P.server"
  SIM_NO_SERVER=1 VERIF_THREADS=5 "$BIN/simctl" check $P --workloads $NW --dump-log | grep "^LOG" > "$T/$P.oneshot"
  cmp_logs "$P per-run digests: server mode/16 workers vs fresh processes/5 workers" "$T/$P.server" "$T/$P.oneshot"
done
if [ $fail -ne 0 ]; then echo "HARNESS ERROR: the simulation is not deterministic"; exit 2; fi
echo "selftest: all digests identical"
