#!/usr/bin/env python3
"""Regenerates /verif/MANIFEST.json (kept as a script so that the claimed/not-applicable split,
commands and texts stay consistent)."""
import json, subprocess, sys

NA = {
 "C01": "constant folding is a pure function of operand values (apint arithmetic); no schedule, clock, I/O, shared state or fault for a simulator to own — deciding it needs exhaustive/differential input testing, a different technique",
 "C02": "interval transfer functions are pure functions of two abstract values; nothing but the argument varies",
 "C03": "merge/widening are pure binary functions on BTreeMap-backed values; no hash order, thread or environment involved",
 "C04": "conditional refinement is a pure function of (value, bound)",
 "C05": "quantifies over histories, but of a single-owner copy-on-write map never shared across threads; no fault, crash or interleaving can fall between two operations, so a history is an ordinary input (sequential model-based testing, not simulation)",
 "C06": "string-domain operations are pure functions on brick lists / BTreeSets",
 "C08": "CFG construction is a pure function Program -> Graph; its HashMaps are lookup-only and never iterated into the result",
 "C09": "basic normalisation is a pure function of the raw project; its hash maps run under varying entropy inside the C21/C23 campaigns, but the property itself quantifies over programs only",
 "C10": "needs an independent IR interpreter and program/state generation (translation validation / differential testing); the pass pipeline has no environment interaction; its one hidden schedule (hash order) is covered at output level by C23",
 "C11": "same as C10: two reference interpreters over a pure translation",
 "C12": "a typing walk over a pure translation result",
 "C13": "a statement over all paths of all programs versus a concrete interpreter; the analysis is single-threaded and its only thread (the log collector) does not influence values (that is C25)",
 "C14": "function-signature analysis is a pure function of the program",
 "C15": "pure function of the program; its channel is a same-thread queue drained after the fixpoint",
 "C16": "call-site checkers are pure functions of (program, configuration)",
 "C17": "reachability checkers are pure functions of (program, configuration)",
 "C18": "constant-argument checkers are pure functions of the program",
 "C19": "global-memory queries are pure functions of (segments, address, size) on an in-memory image; the file read that fills the image belongs to C21",
 "C20": "format-string parsing is a pure function of a string",
 "C24": "call-sequence queries are pure graph functions",
}

LEVEL_NOTE_CLI = ("trusted: the workload generator stays inside the extractor's envelope (documented next to the generator); "
  "libsimenv.so's getrandom/read/write interposition; the channel stand-in's contract (checked against real crossbeam by C25 engine B); "
  "shuttle's coroutine runtime. Ghidra/JVM extractor is absent: its output is generated and fed through --pcode-raw.")

CHECKS = [
 {"property_id": "C07",
  "quick_cmd": "./verif C07 --tier quick",
  "thorough_cmd": "./verif C07 --tier thorough",
  "evidence_file": "/verif/evidence/C07.json",
  "replay_cmd_template": "./verif replay {path}",
  "engine": "c07",
  "technique": "deterministic simulation: seeded search over worklist schedules (node-priority permutations, exhaustive for n<=6), pre-emption points and injected values, checked against a reference least-fixpoint model",
  "level_claimed": {"category": "exploration",
    "text": "the real fixpoint::Computation and the real interprocedural wrapper run under simulator-chosen schedules (priority permutations incl. bottom-up/top-down, step-bound pre-emption, resume, values injected between slices) on generated monotone transfer systems; every run is compared with an independent Kleene-iteration reference and the step-bound/closedness clauses are checked from counting callbacks; sampled systems, exhaustive orders for n<=6 — evidence, not proof",
    "design_ref": "DESIGN.md 4.1"},
  "level_note": "trusted: the 20-line reference solver; monotonicity of generated edge functions (asserted exhaustively per system); priority lists are permutations (constructor contract)"},
]

def main():
    hooks = subprocess.run(["git", "-C", "/repo", "log", "--format=%H %s", "--grep=^verif hook"], capture_output=True, text=True).stdout.strip().splitlines()
    m = {
      "version": 1,
      "setup_cmd": "./verif setup",
      "hooks": {
        "guard": "cwe_checker_verif",
        "enable": "cd /verif/sim && cargo build --release --offline   # .cargo/config.toml sets RUSTFLAGS=--cfg cwe_checker_verif; shadow manifests compile /repo/src with crossbeam-channel replaced by the scheduler-owned stand-in",
        "baseline_off_cmd": "cd /repo && cargo nextest run --workspace --no-fail-fast --test-threads 8 --offline || cargo test --workspace --no-fail-fast --offline",
        "source_commits": [h.split()[0] for h in hooks],
        "add_only": True,
      },
      "engines": [
        {"name": "c07", "path": "/verif/sim/c07", "serves_properties": ["C07"], "kind_free_text": "in-process simulator of the worklist solver: schedule = priority permutation + pre-emption + injections; oracle = reference lfp"},
      ],
      "checks": CHECKS,
      "not_applicable": [{"property_id": k, "reason": v} for k, v in sorted(NA.items())],
      "notes": "Technique family: deterministic simulation with fault injection. See DESIGN.md. VERIF_SEED (default 1) seeds every choice; exit 2 = harness error.",
    }
    extra = json.load(open("/verif/tools/manifest_extra.json")) if __import__("os").path.exists("/verif/tools/manifest_extra.json") else None
    if extra:
        m["checks"] += extra.get("checks", [])
        m["engines"] += extra.get("engines", [])
        for na in extra.get("not_applicable", []):
            m["not_applicable"].append(na)
    json.dump(m, open("/verif/MANIFEST.json", "w"), indent=1)
    print("MANIFEST.json written:", [c["property_id"] for c in m["checks"]], len(m["not_applicable"]), "n/a")

main()
