//! One run = one fresh process of the simulated CLI (`cwe_checker_sim`: real main.rs + real library,
//! shuttle-owned threads, channel stand-in) under `libsimenv.so` (seeded entropy, syscall faults).

use serde::{Deserialize, Serialize};
use std::path::{Path, PathBuf};
use std::process::{Command, Stdio};

#[derive(Clone, Debug, Serialize, Deserialize, PartialEq, Eq, Hash)]
pub struct Env {
    /// seed of the `getrandom` stream: decides every HashMap/HashSet iteration order
    pub entropy: u64,
    /// schedule spec of the collector threads (`SchedSpec::render`)
    pub sched: String,
    /// `0` = no syscall faults, `<seed>:<rs>:<re>:<ws>:<we>` seeded rates, `list:...` explicit faults
    pub io: String,
    /// transport of the extractor output: `false` = regular file, `true` = a pipe (the production
    /// transport: the Ghidra plugin writes the project into a named pipe)
    #[serde(default)]
    pub pipe: bool,
    /// the `--out` path already holds an older, longer result file when the run starts
    #[serde(default)]
    pub stale_out: bool,
}

impl Env {
    pub fn baseline() -> Env {
        Env { entropy: 0, sched: "sticky".into(), io: "0".into(), pipe: false, stale_out: false }
    }
}

#[derive(Clone, Debug, Serialize, Deserialize, PartialEq, Eq, Hash)]
pub enum Selection {
    Default,
    Partial(Vec<String>),
}

#[derive(Clone, Debug, Serialize, Deserialize, PartialEq, Eq, Hash)]
pub struct CliMode {
    pub selection: Selection,
    pub json: bool,
    pub quiet: bool,
    pub verbose: bool,
    pub statistics: bool,
    pub out_file: bool,
    /// pass the configuration with `--config` instead of the XDG config directory
    pub config_flag: bool,
}

impl CliMode {
    pub fn json_quiet(selection: Selection) -> CliMode {
        CliMode { selection, json: true, quiet: true, verbose: false, statistics: false, out_file: false, config_flag: false }
    }
    pub fn argv(&self, elf: &str, pcode: &str, out: &str, config: &str) -> Vec<String> {
        let mut a = vec![elf.to_string(), "--pcode-raw".into(), pcode.to_string()];
        if let Selection::Partial(list) = &self.selection {
            a.push("--partial".into());
            a.push(list.join(","));
        }
        if self.json { a.push("--json".into()); }
        if self.quiet { a.push("--quiet".into()); }
        if self.verbose { a.push("--verbose".into()); }
        if self.statistics { a.push("--statistics".into()); }
        if self.out_file { a.push("--out".into()); a.push(out.to_string()); }
        if self.config_flag { a.push("--config".into()); a.push(config.to_string()); }
        a
    }
}

#[derive(Clone, Debug, Default, Serialize, Deserialize)]
pub struct IoStats {
    pub getrandom: u64,
    pub read: u64,
    pub read_short: u64,
    pub read_eintr: u64,
    pub write: u64,
    pub write_short: u64,
    pub write_eintr: u64,
    pub injected: String,
    pub injected_total: u64,
    #[serde(default)]
    pub clock_reads: u64,
    #[serde(default)]
    pub clock_jumps: u64,
}

#[derive(Clone, Debug, Default, Serialize, Deserialize)]
pub struct SimEvents {
    pub modules: Vec<String>,
    pub sched_steps: u64,
    pub trace: Vec<u32>,
    #[serde(default)]
    pub rands: Vec<u64>,
    pub events: u64,
    pub event_hash: String,
    pub tasks: u64,
    pub sends: u64,
    pub recvs: u64,
    pub recv_blocked: u64,
    pub channels: u64,
    pub panicked: bool,
}

#[derive(Clone, Debug)]
pub struct RunOut {
    pub exit: Option<i32>,
    pub timed_out: bool,
    pub stdout: Vec<u8>,
    pub stderr: String,
    pub out_file: Option<Vec<u8>>,
    pub stats: Option<IoStats>,
    pub events: Option<SimEvents>,
    /// served by the long-lived server process (fast path) rather than by a fresh process
    pub via_server: bool,
    /// real time of the run (diagnostic only: never part of a verdict except through the tripwire)
    pub wall_ms: u64,
}

pub struct Paths {
    pub sim_bin: PathBuf,
    pub envso: PathBuf,
    pub config: PathBuf,
    pub lkm_config: PathBuf,
}

impl Paths {
    pub fn from_env() -> Paths {
        let verif = std::env::var("VERIF_DIR").unwrap_or_else(|_| "/verif".into());
        let repo = std::env::var("VERIF_REPO").unwrap_or_else(|_| "/repo".into());
        Paths {
            // SIM_BIN: another build of the simulated CLI (e.g. coverage-instrumented, see tools/coverage.sh)
            sim_bin: std::env::var("SIM_BIN").map(PathBuf::from).unwrap_or_else(|_| PathBuf::from(format!("{verif}/sim/target/x86_64-unknown-linux-gnu/release/cwe_checker_sim"))),
            envso: PathBuf::from(format!("{verif}/env/libsimenv.so")),
            config: PathBuf::from(format!("{repo}/src/config.json")),
            lkm_config: PathBuf::from(format!("{repo}/src/lkm_config.json")),
        }
    }
}

/// A long-lived simulated-CLI process that serves runs one after the other (`SIM_SERVER=1`).
/// Fast path only: whatever looks anomalous is re-run in a fresh one-shot process by the caller.
pub struct Server {
    child: std::process::Child,
    stdin: std::process::ChildStdin,
    stdout: std::io::BufReader<std::process::ChildStdout>,
    served: u64,
}

fn esc(s: &str) -> String {
    s.replace('\\', "\\\\").replace('"', "\\\"")
}

impl Server {
    fn start(wd_dir: &Path, paths: &Paths) -> Option<Server> {
        let p = |n: &str| wd_dir.join(n).to_string_lossy().to_string();
        let mut child = Command::new(&paths.sim_bin)
            .env_clear()
            .env("XDG_CONFIG_HOME", p("xdg"))
            .env("HOME", p(""))
            .env("LD_PRELOAD", &paths.envso)
            .env("SIM_SERVER", "1")
            .env("RUST_BACKTRACE", "1")
            .stdin(Stdio::piped())
            .stdout(Stdio::piped())
            .stderr(Stdio::null())
            .spawn()
            .ok()?;
        let stdin = child.stdin.take()?;
        let stdout = std::io::BufReader::new(child.stdout.take()?);
        Some(Server { child, stdin, stdout, served: 0 })
    }

    /// `None` = the server died or answered garbage (e.g. the run called `exit` or overflowed its stack).
    fn request(&mut self, wd: &WorkDir, argv: &[String], env: &Env) -> Option<(i32, Option<SimEvents>, Option<IoStats>)> {
        use std::io::{BufRead, Write};
        let line = format!(
            "{{\"argv\":[{}],\"entropy\":\"{}\",\"sched\":\"{}\",\"io\":\"{}\",\"stdout\":\"{}\",\"stderr\":\"{}\"}}\n",
            argv.iter().map(|a| format!("\"{}\"", esc(a))).collect::<Vec<_>>().join(","),
            env.entropy,
            esc(&env.sched),
            esc(&env.io),
            esc(&wd.p("stdout.txt")),
            esc(&wd.p("stderr.txt"))
        );
        self.stdin.write_all(line.as_bytes()).ok()?;
        self.stdin.flush().ok()?;
        // real-time tripwire: a run that never answers takes the server down with it
        {
            use std::os::fd::AsRawFd;
            #[repr(C)]
            struct PollFd {
                fd: i32,
                events: i16,
                revents: i16,
            }
            extern "C" {
                fn poll(fds: *mut PollFd, nfds: u64, timeout: i32) -> i32;
            }
            let mut pfd = PollFd { fd: self.stdout.get_ref().as_raw_fd(), events: 1, revents: 0 };
            let n = unsafe { poll(&mut pfd, 1, wd.tripwire_ms.get() as i32) };
            if n <= 0 {
                return None;
            }
        }
        let mut resp = String::new();
        if self.stdout.read_line(&mut resp).ok()? == 0 {
            return None;
        }
        self.served += 1;
        let v: serde_json::Value = serde_json::from_str(&resp).ok()?;
        Some((
            v["exit"].as_i64()? as i32,
            serde_json::from_value(v["events"].clone()).ok(),
            serde_json::from_value(v["stats"].clone()).ok(),
        ))
    }
}

impl Drop for Server {
    fn drop(&mut self) {
        let _ = self.child.kill();
        let _ = self.child.wait();
    }
}

/// Per-worker scratch directory with a private XDG config home holding the shipped configuration.
pub struct WorkDir {
    pub dir: PathBuf,
    /// fast path: serve runs from one long-lived process
    pub server: std::cell::RefCell<Option<Server>>,
    pub use_server: bool,
    pub server_fallbacks: std::cell::Cell<u64>,
    pub tripwire_ms: std::cell::Cell<u64>,
}

impl WorkDir {
    pub fn new(base: &Path, paths: &Paths) -> WorkDir {
        let dir = base.to_path_buf();
        let xdg = dir.join("xdg/cwe_checker");
        std::fs::create_dir_all(&xdg).unwrap();
        std::fs::copy(&paths.config, xdg.join("config.json")).unwrap();
        std::fs::copy(&paths.lkm_config, xdg.join("lkm_config.json")).unwrap();
        WorkDir { dir, server: std::cell::RefCell::new(None), use_server: false, server_fallbacks: std::cell::Cell::new(0), tripwire_ms: std::cell::Cell::new(TRIPWIRE_MS) }
    }
    pub fn with_server(mut self) -> WorkDir {
        self.use_server = true;
        self.tripwire_ms.set(TRIPWIRE_EXPLORE_MS);
        self
    }
    pub fn p(&self, name: &str) -> String {
        self.dir.join(name).to_string_lossy().to_string()
    }
    pub fn write_workload(&self, pcode: &[u8], elf: &[u8]) {
        std::fs::write(self.p("w.json"), pcode).unwrap();
        std::fs::write(self.p("w.elf"), elf).unwrap();
    }
}

/// Real-time tripwire for runaway runs (never an oracle on its own, see DESIGN 3.5).
pub const TRIPWIRE_MS: u64 = 90_000;
/// tripwire while exploring (a suspected hang is confirmed with the longer one in a fresh process)
pub const TRIPWIRE_EXPLORE_MS: u64 = 20_000;

/// A pipe pre-filled with the P-Code project and closed for writing: whoever opens
/// `/proc/<pid>/fd/<read end>` reads the project followed by end-of-file, like a reader of the
/// named pipe the Ghidra plugin writes to. `None` if the project does not fit into a pipe buffer.
struct FilledPipe {
    read_fd: i32,
}

impl FilledPipe {
    fn new(data: &[u8]) -> Option<FilledPipe> {
        extern "C" {
            fn pipe(fds: *mut i32) -> i32;
            fn fcntl(fd: i32, cmd: i32, arg: i32) -> i32;
            fn write(fd: i32, buf: *const u8, n: usize) -> isize;
            fn close(fd: i32) -> i32;
        }
        const F_SETFL: i32 = 4;
        const O_NONBLOCK: i32 = 0o4000;
        const F_SETPIPE_SZ: i32 = 1031;
        if data.len() > 1_000_000 {
            return None;
        }
        let mut fds = [0i32; 2];
        unsafe {
            if pipe(fds.as_mut_ptr()) != 0 {
                return None;
            }
            fcntl(fds[1], F_SETPIPE_SZ, 1 << 20);
            fcntl(fds[1], F_SETFL, O_NONBLOCK);
            let mut off = 0usize;
            while off < data.len() {
                let n = write(fds[1], data[off..].as_ptr(), data.len() - off);
                if n <= 0 {
                    close(fds[0]);
                    close(fds[1]);
                    return None;
                }
                off += n as usize;
            }
            close(fds[1]);
        }
        Some(FilledPipe { read_fd: fds[0] })
    }
    fn path(&self) -> String {
        format!("/proc/{}/fd/{}", std::process::id(), self.read_fd)
    }
}

impl Drop for FilledPipe {
    fn drop(&mut self) {
        extern "C" {
            fn close(fd: i32) -> i32;
        }
        unsafe {
            close(self.read_fd);
        }
    }
}

pub fn run_cli(wd: &WorkDir, paths: &Paths, mode: &CliMode, env: &Env, lkm: bool) -> RunOut {
    let cfg = if lkm { wd.p("xdg/cwe_checker/lkm_config.json") } else { wd.p("xdg/cwe_checker/config.json") };
    let pipe = if env.pipe { std::fs::read(wd.p("w.json")).ok().and_then(|d| FilledPipe::new(&d)) } else { None };
    let pcode = pipe.as_ref().map_or_else(|| wd.p("w.json"), |p| p.path());
    let argv = mode.argv(&wd.p("w.elf"), &pcode, &wd.p("out.txt"), &cfg);
    let stale = if env.stale_out && mode.out_file {
        // what an earlier, bigger analysis left behind at the same path
        let mut old = String::from("[\n");
        for i in 0..40 {
            old.push_str(&format!("  {{\n    \"name\": \"CWE676\",\n    \"version\": \"0.1\",\n    \"addresses\": [\"0040{i:04x}\"],\n    \"tids\": [],\n    \"symbols\": [],\n    \"other\": [],\n    \"description\": \"stale entry {i}\"\n  }},\n"));
        }
        old.push_str("]\n");
        Some(old)
    } else {
        None
    };
    let out = run_raw_with(wd, paths, &argv, env, stale.as_deref(), true);
    if pipe.is_some() && wd.use_server && !out.via_server {
        // The server path was abandoned in the middle of the run (tripwire or server death) and the
        // run was repeated in a fresh process — but the server had already drained the pipe. Hand a
        // freshly filled pipe to a fresh process.
        drop(pipe);
        let pipe = std::fs::read(wd.p("w.json")).ok().and_then(|d| FilledPipe::new(&d));
        let pcode = pipe.as_ref().map_or_else(|| wd.p("w.json"), |p| p.path());
        let argv = mode.argv(&wd.p("w.elf"), &pcode, &wd.p("out.txt"), &cfg);
        return run_raw_with(wd, paths, &argv, env, stale.as_deref(), false);
    }
    out
}

pub fn run_raw(wd: &WorkDir, paths: &Paths, argv: &[String], env: &Env) -> RunOut {
    run_raw_with(wd, paths, argv, env, None, true)
}

fn run_raw_with(wd: &WorkDir, paths: &Paths, argv: &[String], env: &Env, stale_out: Option<&str>, allow_server: bool) -> RunOut {
    let prepare = || {
        for f in ["stdout.txt", "stderr.txt", "out.txt", "stats.json", "events.json"] {
            let _ = std::fs::remove_file(wd.p(f));
        }
        if let Some(old) = stale_out {
            let _ = std::fs::write(wd.p("out.txt"), old);
        }
    };
    prepare();
    let t_start = std::time::Instant::now();
    if wd.use_server && allow_server {
        let mut slot = wd.server.borrow_mut();
        // a fresh server every 1000 runs bounds whatever a long-lived process may accumulate
        if slot.as_ref().map_or(true, |s| s.served >= 1000) {
            *slot = Server::start(&wd.dir, paths);
        }
        if let Some(server) = slot.as_mut() {
            match server.request(wd, argv, env) {
                Some((exit, events, stats)) => {
                    let read = |f: &str| std::fs::read(wd.p(f)).ok();
                    return RunOut {
                        exit: Some(exit),
                        timed_out: false,
                        stdout: read("stdout.txt").unwrap_or_default(),
                        stderr: String::from_utf8_lossy(&read("stderr.txt").unwrap_or_default()).to_string(),
                        out_file: read("out.txt"),
                        stats,
                        events,
                        via_server: true,
                        wall_ms: t_start.elapsed().as_millis() as u64,
                    };
                }
                None => {
                    // the run took the server down (exit, abort, stack overflow) or never answered:
                    // judge it from a one-shot process instead
                    *slot = None;
                    wd.server_fallbacks.set(wd.server_fallbacks.get() + 1);
                    prepare();
                }
            }
        }
    }
    let stdout = std::fs::File::create(wd.p("stdout.txt")).unwrap();
    let stderr = std::fs::File::create(wd.p("stderr.txt")).unwrap();
    let mut cmd = Command::new(&paths.sim_bin);
    cmd.args(argv)
        .env_clear()
        .env("XDG_CONFIG_HOME", wd.p("xdg"))
        .env("HOME", wd.p(""))
        .env("LD_PRELOAD", &paths.envso)
        .env("SIM_ENTROPY", env.entropy.to_string())
        .env("SIM_SCHED", &env.sched)
        .env("SIM_IO", &env.io)
        .env("SIM_STATS", wd.p("stats.json"))
        .env("SIM_EVENTS", wd.p("events.json"))
        .env("RUST_BACKTRACE", "1")
        .stdin(Stdio::null())
        .stdout(Stdio::from(stdout))
        .stderr(Stdio::from(stderr));
    if let Ok(p) = std::env::var("LLVM_PROFILE_FILE") {
        cmd.env("LLVM_PROFILE_FILE", p);
    }
    let mut child = cmd.spawn().expect("cannot spawn cwe_checker_sim");
    let t0 = std::time::Instant::now();
    let mut timed_out = false;
    let status = loop {
        match child.try_wait().unwrap() {
            Some(s) => break Some(s),
            None => {
                if t0.elapsed().as_millis() as u64 > wd.tripwire_ms.get() {
                    let _ = child.kill();
                    let _ = child.wait();
                    timed_out = true;
                    break None;
                }
                std::thread::sleep(std::time::Duration::from_micros(500));
            }
        }
    };
    let read = |f: &str| std::fs::read(wd.p(f)).ok();
    RunOut {
        exit: status.and_then(|s| s.code()),
        timed_out,
        stdout: read("stdout.txt").unwrap_or_default(),
        stderr: String::from_utf8_lossy(&read("stderr.txt").unwrap_or_default()).to_string(),
        out_file: read("out.txt"),
        stats: read("stats.json").and_then(|b| serde_json::from_slice(&b).ok()),
        events: read("events.json").and_then(|b| serde_json::from_slice(&b).ok()),
        via_server: false,
        wall_ms: t_start.elapsed().as_millis() as u64,
    }
}
