//! Minimal ELF images matching a generated P-Code project: ET_EXEC / ET_DYN with PT_LOAD segments
//! (optionally with a section table holding `.debug_*` sections), and ET_REL kernel modules with
//! `.modinfo` + `.gnu.linkonce.this_module`. 32/64 bit, little/big endian. Parsed by the real goblin.

#[derive(Clone, Debug)]
pub struct ElfSpec {
    pub class64: bool,
    pub big_endian: bool,
    pub machine: u16,
    /// ET_EXEC (2), ET_DYN (3) or ET_REL (1)
    pub etype: u16,
    /// virtual address of the first loadable segment (ET_EXEC / ET_DYN)
    pub base: u64,
    pub text_size: u64,
    pub rodata: Vec<u8>,
    pub data_size: u64,
    pub bss_size: u64,
    pub debug_sections: bool,
    /// kernel modules only: relocation sections exist and the section name table is tail-merged the
    /// way assemblers and linkers write it (`.text` is the tail of `.rela.text`, and
    /// `.gnu.linkonce.this_module` the tail of `.rela.gnu.linkonce.this_module`)
    pub merged_names: bool,
}

struct W {
    be: bool,
    buf: Vec<u8>,
}

impl W {
    fn u16(&mut self, v: u16) {
        if self.be { self.buf.extend_from_slice(&v.to_be_bytes()) } else { self.buf.extend_from_slice(&v.to_le_bytes()) }
    }
    fn u32(&mut self, v: u32) {
        if self.be { self.buf.extend_from_slice(&v.to_be_bytes()) } else { self.buf.extend_from_slice(&v.to_le_bytes()) }
    }
    fn u64(&mut self, v: u64) {
        if self.be { self.buf.extend_from_slice(&v.to_be_bytes()) } else { self.buf.extend_from_slice(&v.to_le_bytes()) }
    }
    fn addr(&mut self, v: u64, c64: bool) {
        if c64 { self.u64(v) } else { self.u32(v as u32) }
    }
}

fn header(s: &ElfSpec, phoff: u64, shoff: u64, phnum: u16, shnum: u16, shstrndx: u16) -> Vec<u8> {
    let mut w = W { be: s.big_endian, buf: Vec::new() };
    w.buf.extend_from_slice(b"\x7fELF");
    w.buf.push(if s.class64 { 2 } else { 1 });
    w.buf.push(if s.big_endian { 2 } else { 1 });
    w.buf.push(1);
    w.buf.push(0);
    w.buf.extend_from_slice(&[0u8; 8]);
    w.u16(s.etype);
    w.u16(s.machine);
    w.u32(1);
    w.addr(if s.etype == 1 { 0 } else { s.base + 0x1000 }, s.class64); // e_entry
    w.addr(phoff, s.class64);
    w.addr(shoff, s.class64);
    w.u32(0); // flags
    w.u16(if s.class64 { 64 } else { 52 }); // ehsize
    w.u16(if s.class64 { 56 } else { 32 }); // phentsize
    w.u16(phnum);
    w.u16(if s.class64 { 64 } else { 40 }); // shentsize
    w.u16(shnum);
    w.u16(shstrndx);
    w.buf
}

fn phdr(s: &ElfSpec, flags: u32, off: u64, vaddr: u64, filesz: u64, memsz: u64) -> Vec<u8> {
    let mut w = W { be: s.big_endian, buf: Vec::new() };
    if s.class64 {
        w.u32(1);
        w.u32(flags);
        w.u64(off);
        w.u64(vaddr);
        w.u64(vaddr);
        w.u64(filesz);
        w.u64(memsz);
        w.u64(0x1000);
    } else {
        w.u32(1);
        w.u32(off as u32);
        w.u32(vaddr as u32);
        w.u32(vaddr as u32);
        w.u32(filesz as u32);
        w.u32(memsz as u32);
        w.u32(flags);
        w.u32(0x1000);
    }
    w.buf
}

#[allow(clippy::too_many_arguments)]
fn shdr(s: &ElfSpec, name: u32, ty: u32, flags: u64, addr: u64, off: u64, size: u64, align: u64) -> Vec<u8> {
    let mut w = W { be: s.big_endian, buf: Vec::new() };
    w.u32(name);
    w.u32(ty);
    if s.class64 {
        w.u64(flags);
        w.u64(addr);
        w.u64(off);
        w.u64(size);
        w.u32(0);
        w.u32(0);
        w.u64(align);
        w.u64(0);
    } else {
        w.u32(flags as u32);
        w.u32(addr as u32);
        w.u32(off as u32);
        w.u32(size as u32);
        w.u32(0);
        w.u32(0);
        w.u32(align as u32);
        w.u32(0);
    }
    w.buf
}

/// Layout of the user-space image: text at `base` (file offset 0), rodata and data behind it.
pub fn layout(s: &ElfSpec) -> (u64, u64) {
    let ro = s.base + s.text_size;
    let data = ro + 0x1000;
    (ro, data)
}

pub fn build_exec(s: &ElfSpec) -> Vec<u8> {
    let (ro, data) = layout(s);
    let ehsize = if s.class64 { 64 } else { 52 };
    let phnum = 3u16;
    let mut body = vec![0u8; (s.text_size + 0x1000 + s.data_size) as usize];
    let ro_off = s.text_size as usize;
    body[ro_off..ro_off + s.rodata.len()].copy_from_slice(&s.rodata);
    // a few recognisable data bytes
    let data_off = (s.text_size + 0x1000) as usize;
    for i in 0..(s.data_size as usize).min(64) {
        body[data_off + i] = (i * 7) as u8;
    }
    let mut ph = Vec::new();
    ph.extend(phdr(s, 5, 0, s.base, s.text_size, s.text_size));
    ph.extend(phdr(s, 4, s.text_size, ro, 0x1000, 0x1000));
    ph.extend(phdr(s, 6, s.text_size + 0x1000, data, s.data_size, s.data_size + s.bss_size));
    let mut sh = Vec::new();
    let mut shnum = 0u16;
    let mut shstrndx = 0u16;
    let shoff;
    if s.debug_sections {
        // sections: NULL, .text, .debug_info, .debug_str, .shstrtab
        let names = b"\0.text\0.debug_info\0.debug_str\0.shstrtab\0";
        let dbg_off = body.len() as u64;
        body.extend_from_slice(&[0x11u8; 0x40]);
        let dbgstr_off = body.len() as u64;
        body.extend_from_slice(b"main.c\0gcc\0");
        while body.len() % 8 != 0 {
            body.push(0);
        }
        let str_off = body.len() as u64;
        body.extend_from_slice(names);
        while body.len() % 8 != 0 {
            body.push(0);
        }
        shoff = body.len() as u64;
        sh.extend(shdr(s, 0, 0, 0, 0, 0, 0, 0));
        sh.extend(shdr(s, 1, 1, 6, s.base + 0x1000, 0x1000, s.text_size - 0x1000, 16));
        sh.extend(shdr(s, 7, 1, 0, 0, dbg_off, 0x40, 1));
        sh.extend(shdr(s, 19, 1, 0, 0, dbgstr_off, 11, 1));
        sh.extend(shdr(s, 30, 3, 0, 0, str_off, names.len() as u64, 1));
        shnum = 5;
        shstrndx = 4;
    } else {
        shoff = 0;
    }
    let eh = header(s, ehsize, shoff, phnum, shnum, shstrndx);
    body[..eh.len()].copy_from_slice(&eh);
    body[eh.len()..eh.len() + ph.len()].copy_from_slice(&ph);
    body.extend(sh);
    body
}

/// Section layout of the kernel module as the analyzer maps it: loaded sections are placed
/// consecutively from 0 respecting alignment. Returns (image, text offset, rodata offset, data offset).
pub fn build_lkm(s: &ElfSpec) -> (Vec<u8>, u64, u64, u64) {
    struct Sec {
        name: &'static str,
        ty: u32,
        flags: u64,
        size: u64,
        align: u64,
        data: Vec<u8>,
    }
    let mut modinfo = b"license=GPL\0author=sim\0".to_vec();
    modinfo.resize(0x40, 0);
    let mut secs = vec![
        Sec { name: ".text", ty: 1, flags: 6, size: s.text_size, align: 16, data: vec![0x90; s.text_size as usize] },
        Sec { name: ".rodata", ty: 1, flags: 2, size: 0x1000, align: 8, data: { let mut r = s.rodata.clone(); r.resize(0x1000, 0); r } },
        Sec { name: ".modinfo", ty: 1, flags: 2, size: 0x40, align: 1, data: modinfo },
        Sec { name: ".gnu.linkonce.this_module", ty: 1, flags: 3, size: 0x100, align: 32, data: vec![0; 0x100] },
        Sec { name: ".data", ty: 1, flags: 3, size: s.data_size, align: 8, data: vec![0; s.data_size as usize] },
        Sec { name: ".bss", ty: 8, flags: 3, size: s.bss_size.max(8), align: 8, data: vec![] },
    ];
    if s.debug_sections {
        secs.push(Sec { name: ".debug_info", ty: 1, flags: 0, size: 0x20, align: 1, data: vec![0x11; 0x20] });
    }
    if s.merged_names {
        for name in [".rela.text", ".rela.gnu.linkonce.this_module"] {
            secs.push(Sec { name, ty: 4, flags: 0x40, size: 0, align: 8, data: vec![] });
        }
    }
    let mut shstr = vec![0u8];
    let mut name_off = Vec::new();
    if s.merged_names {
        // longest names first, every name that is the tail of one already written points into it
        let mut order: Vec<usize> = (0..secs.len()).collect();
        order.sort_by_key(|i| std::cmp::Reverse(secs[*i].name.len()));
        name_off = vec![0u32; secs.len()];
        let mut written: Vec<(&str, u32)> = Vec::new();
        for i in order {
            let name = secs[i].name;
            if let Some((long, off)) = written.iter().find(|(long, _)| long.ends_with(name)) {
                name_off[i] = off + (long.len() - name.len()) as u32;
            } else {
                name_off[i] = shstr.len() as u32;
                written.push((name, shstr.len() as u32));
                shstr.extend_from_slice(name.as_bytes());
                shstr.push(0);
            }
        }
    } else {
        for sec in &secs {
            name_off.push(shstr.len() as u32);
            shstr.extend_from_slice(sec.name.as_bytes());
            shstr.push(0);
        }
    }
    let shstr_name = shstr.len() as u32;
    shstr.extend_from_slice(b".shstrtab\0");
    let ehsize = if s.class64 { 64usize } else { 52 };
    let mut body = vec![0u8; ehsize];
    let mut sh = Vec::new();
    sh.extend(shdr(s, 0, 0, 0, 0, 0, 0, 0));
    // mapped addresses as computed by `RuntimeMemoryImage::from_elf_sections`
    let mut next_base = 0u64;
    let mut mapped = Vec::new();
    for (i, sec) in secs.iter().enumerate() {
        while body.len() as u64 % sec.align.max(1) != 0 {
            body.push(0);
        }
        let off = body.len() as u64;
        if sec.ty != 8 {
            body.extend_from_slice(&sec.data);
        }
        sh.extend(shdr(s, name_off[i], sec.ty, sec.flags, 0, off, sec.size, sec.align));
        if sec.flags & 2 != 0 && sec.size != 0 {
            let a = sec.align.next_power_of_two();
            let base = next_base.next_multiple_of(a);
            mapped.push((sec.name, base));
            next_base = base + sec.size;
        }
    }
    let str_off = body.len() as u64;
    body.extend_from_slice(&shstr);
    sh.extend(shdr(s, shstr_name, 3, 0, 0, str_off, shstr.len() as u64, 1));
    while body.len() % 8 != 0 {
        body.push(0);
    }
    let shoff = body.len() as u64;
    let shnum = secs.len() as u16 + 2;
    let eh = header(s, 0, shoff, 0, shnum, shnum - 1);
    body[..eh.len()].copy_from_slice(&eh);
    body.extend(sh);
    let find = |n: &str| mapped.iter().find(|(name, _)| *name == n).map(|(_, b)| *b).unwrap();
    (body, find(".text"), find(".rodata"), find(".data"))
}
