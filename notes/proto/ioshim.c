#define _GNU_SOURCE
#include <stddef.h>
#include <stdint.h>
#include <stdlib.h>
#include <stdio.h>
#include <errno.h>
#include <unistd.h>
#include <sys/types.h>
#include <sys/syscall.h>
static uint64_t st, ist; static int init; static unsigned long n_short, n_eintr, n_read, n_wshort, n_weintr, n_write, n_rand;
static uint64_t nx(uint64_t*s){ *s += 0x9E3779B97F4A7C15ULL; uint64_t z=*s; z=(z^(z>>30))*0xBF58476D1CE4E5B9ULL; z=(z^(z>>27))*0x94D049BB133111EBULL; return z^(z>>31);}
static int iorate;
static void ini(void){ if(init) return; const char*e=getenv("SIM_ENTROPY"); st=e?strtoull(e,0,10):0; e=getenv("SIM_IO"); ist=e?strtoull(e,0,10):0; iorate = ist?30:0; init=1; }
ssize_t getrandom(void *buf, size_t len, unsigned int flags){ ini(); n_rand++; unsigned char*p=buf; for(size_t i=0;i<len;i++){ if(i%8==0){ uint64_t r=nx(&st); for(int k=0;k<8&&i+k<len;k++) p[i+k]=(r>>(8*k))&0xff; } } return len; }
ssize_t read(int fd, void*buf, size_t len){ ini(); n_read++;
  if(iorate && len>0){ uint64_t r=nx(&ist)%100; if(r<iorate/2){ n_eintr++; errno=EINTR; return -1;} if(r<iorate && len>1){ n_short++; len = 1 + nx(&ist)% (len<64?len:64); } }
  return syscall(SYS_read, fd, buf, len); }
ssize_t write(int fd, const void*buf, size_t len){ ini(); n_write++;
  if(iorate && len>0 && fd!=2){ uint64_t r=nx(&ist)%100; if(r<iorate/2){ n_weintr++; errno=EINTR; return -1;} if(r<iorate && len>1){ n_wshort++; len = 1 + nx(&ist)% (len<64?len:64); } }
  return syscall(SYS_write, fd, buf, len); }
__attribute__((destructor)) static void fin(void){ const char*e=getenv("SIM_STATS"); if(e){ FILE*f=fopen(e,"w"); if(f){ fprintf(f,"{\"getrandom\":%lu,\"read\":%lu,\"read_short\":%lu,\"read_eintr\":%lu,\"write\":%lu,\"write_short\":%lu,\"write_eintr\":%lu}\n",n_rand,n_read,n_short,n_eintr,n_write,n_wshort,n_weintr); fclose(f);} } }
