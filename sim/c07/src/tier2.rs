//! C07 tier 2 — the interprocedural wrapper and its worklist orders on real control flow graphs.
//!
//! A generated IR program is turned into the real CFG by `graph::get_program_cfg`. The transfer
//! system is a mock `forward_interprocedural_fixpoint::Context` over the bitset lattice whose
//! per-site functions are derived from `(table seed, term id)`. The real `Computation` is run
//! under the solver's default order, the bottom-up and top-down orders the analyses use, and random
//! permutations, with pre-emption; every run must agree with an independent reference that
//! interprets the CFG edge kinds itself (it does not call `GeneralizedContext::update_edge`).

use crate::{viol, BudgetExceeded, EdgeFn, Violation};
use cwe_checker_lib::analysis::fixpoint::Computation;
use cwe_checker_lib::analysis::forward_interprocedural_fixpoint::{
    create_bottom_up_worklist, create_computation, create_top_down_worklist, Context, GeneralizedContext,
};
use cwe_checker_lib::analysis::graph::{get_program_cfg, Edge, Graph, Node};
use cwe_checker_lib::analysis::interprocedural_fixpoint_generic::NodeValue;
use cwe_checker_lib::intermediate_representation::*;
use petgraph::graph::NodeIndex;
use petgraph::visit::EdgeRef;
use serde::{Deserialize, Serialize};
use simcommon::{derive, fnv64, mix, Rng};
use std::cell::Cell;
use std::collections::{BTreeMap, BTreeSet, HashSet};
use std::panic::{catch_unwind, AssertUnwindSafe};

#[derive(Clone, Debug, Serialize, Deserialize, PartialEq, Eq, Hash)]
pub enum JmpSpec {
    Return,
    Branch(usize),
    /// conditional jump to the first block, fall-through to the second
    Cond(usize, usize),
    /// call of function `f`, returning to block `ret` (or not returning)
    Call { f: usize, ret: Option<usize> },
    /// call of extern symbol, returning to block `ret`
    Extern { ret: Option<usize> },
    /// indirect call
    CallInd { ret: Option<usize> },
    /// indirect jump with the given known targets
    BranchInd(Vec<usize>),
    /// no jump at all (dead end)
    None,
}

#[derive(Clone, Debug, Serialize, Deserialize, PartialEq, Eq, Hash)]
pub struct BlkSpec {
    pub defs: u8,
    pub jmp: JmpSpec,
}

#[derive(Clone, Debug, Serialize, Deserialize, PartialEq, Eq, Hash)]
pub enum Order2 {
    Default,
    BottomUp,
    TopDown,
    /// random permutation of all CFG nodes derived from this seed
    Random(u64),
    Reverse,
}

#[derive(Clone, Debug, Serialize, Deserialize, PartialEq, Eq, Hash)]
pub struct Scenario2 {
    /// functions, each a list of blocks; jump targets are block indices within the function
    pub subs: Vec<Vec<BlkSpec>>,
    pub bits: u8,
    pub table_seed: u64,
    /// update_return needs both inputs (like pointer inference) or joins whatever is present
    pub return_needs_both: bool,
    pub default: Option<u8>,
    /// (function index, value): start value at the entry node of the function
    pub start: Vec<(usize, u8)>,
    pub order: Order2,
    /// bounds of pre-emptible slices run before the final `compute()`
    pub slices: Vec<u64>,
    /// false: forward wrapper (tier 2); true: backward wrapper on the reversed CFG (tier 3)
    #[serde(default)]
    pub backward: bool,
}

fn tid(s: String) -> Tid {
    Tid::new(s)
}

fn var(name: &str) -> Variable {
    Variable {
        name: name.to_string(),
        size: ByteSize::new(8),
        is_temp: false,
    }
}

pub fn build_program(sc: &Scenario2) -> Term<Program> {
    let mut subs = BTreeMap::new();
    let ext_tid = tid("sub_extern".into());
    for (si, blocks) in sc.subs.iter().enumerate() {
        let mut blks = Vec::new();
        for (bi, b) in blocks.iter().enumerate() {
            let bt = |i: usize| tid(format!("blk_{si}_{i}"));
            let mut defs = Vec::new();
            for di in 0..b.defs {
                defs.push(Term {
                    tid: tid(format!("def_{si}_{bi}_{di}")),
                    term: Def::Assign {
                        var: var("RAX"),
                        value: Expression::Var(var("RBX")),
                    },
                });
            }
            let jt = |k: usize| tid(format!("jmp_{si}_{bi}_{k}"));
            let mut indirect = Vec::new();
            let jmps = match &b.jmp {
                JmpSpec::Return => vec![Term { tid: jt(0), term: Jmp::Return(Expression::Var(var("RIP"))) }],
                JmpSpec::Branch(t) => vec![Term { tid: jt(0), term: Jmp::Branch(bt(*t)) }],
                JmpSpec::Cond(t, f) => vec![
                    Term { tid: jt(0), term: Jmp::CBranch { target: bt(*t), condition: Expression::Var(var("ZF")) } },
                    Term { tid: jt(1), term: Jmp::Branch(bt(*f)) },
                ],
                JmpSpec::Call { f, ret } => vec![Term {
                    tid: jt(0),
                    term: Jmp::Call { target: tid(format!("sub_{f}")), return_: ret.map(bt) },
                }],
                JmpSpec::Extern { ret } => vec![Term {
                    tid: jt(0),
                    term: Jmp::Call { target: ext_tid.clone(), return_: ret.map(bt) },
                }],
                JmpSpec::CallInd { ret } => vec![Term {
                    tid: jt(0),
                    term: Jmp::CallInd { target: Expression::Var(var("RCX")), return_: ret.map(bt) },
                }],
                JmpSpec::BranchInd(ts) => {
                    indirect = ts.iter().map(|t| bt(*t)).collect();
                    vec![Term { tid: jt(0), term: Jmp::BranchInd(Expression::Var(var("RDX"))) }]
                }
                JmpSpec::None => vec![],
            };
            blks.push(Term {
                tid: bt(bi),
                term: Blk { defs, jmps, indirect_jmp_targets: indirect },
            });
        }
        let st = tid(format!("sub_{si}"));
        subs.insert(
            st.clone(),
            Term {
                tid: st,
                term: Sub {
                    name: format!("f{si}"),
                    blocks: blks,
                    calling_convention: Some("__stdcall".into()),
                },
            },
        );
    }
    let mut extern_symbols = BTreeMap::new();
    extern_symbols.insert(
        ext_tid.clone(),
        ExternSymbol {
            tid: ext_tid,
            addresses: vec![],
            name: "ext".into(),
            calling_convention: Some("__stdcall".into()),
            parameters: vec![],
            return_values: vec![],
            no_return: false,
            has_var_args: false,
        },
    );
    Term {
        tid: tid("prog".into()),
        term: Program {
            subs,
            extern_symbols,
            entry_points: BTreeSet::new(),
            address_base_offset: 0,
        },
    }
}

/// Monotone site function derived from the table seed and the site's name.
pub(crate) fn site_fn(table_seed: u64, site: &str, bits: u8) -> EdgeFn {
    let mut r = Rng::new(mix(table_seed ^ fnv64(site.as_bytes())));
    let mask = ((1u16 << bits) - 1) as u8;
    let sparse = |r: &mut Rng| (r.next() & r.next()) as u8 & mask;
    EdgeFn {
        src: 0,
        dst: 0,
        guard: if r.chance(12) { sparse(&mut r) } else { 0 },
        keep: if r.chance(65) { mask } else { r.next() as u8 & mask },
        gen: if r.chance(60) { 0 } else { sparse(&mut r) },
        a: if r.chance(40) { sparse(&mut r) } else { mask },
        b: if r.chance(50) { sparse(&mut r) } else { 0 },
    }
}

struct MockContext<'a> {
    graph: &'a Graph<'a>,
    table_seed: u64,
    bits: u8,
    return_needs_both: bool,
    calls: Cell<u64>,
    budget: u64,
}

impl<'a> MockContext<'a> {
    fn f(&self, site: &str, v: u8) -> Option<u8> {
        let t = self.calls.get() + 1;
        self.calls.set(t);
        if t > self.budget {
            std::panic::panic_any(BudgetExceeded);
        }
        site_fn(self.table_seed, site, self.bits).apply(v)
    }
    fn ret(&self, value: Option<u8>, before: Option<u8>, call: &Term<Jmp>, ret: &Term<Jmp>) -> Option<u8> {
        let site = format!("ret:{}:{}", call.tid, ret.tid);
        if self.return_needs_both {
            match (value, before) {
                (Some(v), Some(b)) => {
                    let x = self.f(&format!("{site}:v"), v)?;
                    let y = self.f(&format!("{site}:b"), b)?;
                    Some(x | y)
                }
                _ => None,
            }
        } else {
            let x = value.and_then(|v| self.f(&format!("{site}:v"), v));
            let y = before.and_then(|b| self.f(&format!("{site}:b"), b));
            match (x, y) {
                (None, None) => None,
                (a, b) => Some(a.unwrap_or(0) | b.unwrap_or(0)),
            }
        }
    }
}

impl<'a> Context<'a> for MockContext<'a> {
    type Value = u8;
    fn get_graph(&self) -> &Graph<'a> {
        self.graph
    }
    fn merge(&self, a: &u8, b: &u8) -> u8 {
        a | b
    }
    fn update_def(&self, v: &u8, def: &Term<Def>) -> Option<u8> {
        self.f(&format!("def:{}", def.tid), *v)
    }
    fn update_jump(&self, v: &u8, jump: &Term<Jmp>, untaken: Option<&Term<Jmp>>, target: &Term<Blk>) -> Option<u8> {
        self.f(&format!("jmp:{}:{}:{}", jump.tid, untaken.map_or("-".to_string(), |u| u.tid.to_string()), target.tid), *v)
    }
    fn update_call(&self, v: &u8, call: &Term<Jmp>, target: &Node, cconv: &Option<String>) -> Option<u8> {
        self.f(&format!("call:{}:{}:{:?}", call.tid, target.get_block().tid, cconv), *v)
    }
    fn update_return(&self, value: Option<&u8>, before: Option<&u8>, call: &Term<Jmp>, ret: &Term<Jmp>, _cconv: &Option<String>) -> Option<u8> {
        self.ret(value.copied(), before.copied(), call, ret)
    }
    fn update_call_stub(&self, v: &u8, call: &Term<Jmp>) -> Option<u8> {
        self.f(&format!("stub:{}", call.tid), *v)
    }
    fn specialize_conditional(&self, v: &u8, _cond: &Expression, block: &Term<Blk>, is_true: bool) -> Option<u8> {
        self.f(&format!("cond:{}:{}", block.tid, is_true), *v)
    }
}

#[derive(Clone, Copy, PartialEq, Eq, Debug)]
pub(crate) enum RefVal {
    V(u8),
    Comb(Option<u8>, Option<u8>),
}

pub(crate) fn join(a: RefVal, b: RefVal) -> RefVal {
    let jo = |x: Option<u8>, y: Option<u8>| match (x, y) {
        (Some(p), Some(q)) => Some(p | q),
        (p, None) => p,
        (None, q) => q,
    };
    match (a, b) {
        (RefVal::V(x), RefVal::V(y)) => RefVal::V(x | y),
        (RefVal::Comb(c1, r1), RefVal::Comb(c2, r2)) => RefVal::Comb(jo(c1, c2), jo(r1, r2)),
        _ => panic!("reference: value kinds mixed at one node"),
    }
}

/// Independent interpretation of one CFG edge (documented meaning of the edge kinds in `graph.rs`).
fn ref_edge(ctx: &MockContext, graph: &Graph, e: petgraph::graph::EdgeIndex, val: RefVal) -> Option<RefVal> {
    let (s, t) = graph.edge_endpoints(e).unwrap();
    let v = |val: RefVal| match val {
        RefVal::V(x) => x,
        _ => panic!("reference: combinator value at a plain node"),
    };
    match &graph[e] {
        Edge::Block => {
            let blk = graph[s].get_block();
            let mut acc = v(val);
            for d in &blk.term.defs {
                acc = ctx.f(&format!("def:{}", d.tid), acc)?;
            }
            Some(RefVal::V(acc))
        }
        Edge::Jump(jump, untaken) => {
            let blk = graph[s].get_block();
            let mut x = v(val);
            if matches!(jump.term, Jmp::CBranch { .. }) {
                x = ctx.f(&format!("cond:{}:true", blk.tid), x)?;
            } else if untaken.is_some() {
                x = ctx.f(&format!("cond:{}:false", blk.tid), x)?;
            }
            let target = graph[t].get_block();
            ctx.f(&format!("jmp:{}:{}:{}", jump.tid, untaken.map_or("-".to_string(), |u| u.tid.to_string()), target.tid), x)
                .map(RefVal::V)
        }
        Edge::Call(call) => {
            let target = &graph[t];
            ctx.f(&format!("call:{}:{}:{:?}", call.tid, target.get_block().tid, target.get_sub().term.calling_convention), v(val))
                .map(RefVal::V)
        }
        Edge::ExternCallStub(call) => ctx.f(&format!("stub:{}", call.tid), v(val)).map(RefVal::V),
        Edge::CallCombine(_) => Some(RefVal::V(v(val))),
        Edge::CrCallStub => Some(RefVal::Comb(Some(v(val)), None)),
        Edge::CrReturnStub => Some(RefVal::Comb(None, Some(v(val)))),
        Edge::ReturnCombine(call) => match val {
            RefVal::Comb(call_stub, interproc) => {
                let ret_blk = match &graph[s] {
                    Node::CallReturn { return_: (b, _), .. } => b,
                    _ => panic!("reference: ReturnCombine edge not leaving a CallReturn node"),
                };
                ctx.ret(interproc, call_stub, call, &ret_blk.term.jmps[0]).map(RefVal::V)
            }
            _ => panic!("reference: plain value at a CallReturn node"),
        },
    }
}

#[derive(Default, Clone, Debug)]
pub struct Stats2 {
    pub callbacks: u64,
    pub ref_rounds: u32,
    pub nodes: usize,
    pub call_return_nodes_with_both: u32,
    pub bound_hit: bool,
    pub shared_block: bool,
}

pub(crate) fn to_ref(v: &NodeValue<u8>) -> RefVal {
    match v {
        NodeValue::Value(x) => RefVal::V(*x),
        NodeValue::CallFlowCombinator { call_stub, interprocedural_flow } => RefVal::Comb(*call_stub, *interprocedural_flow),
    }
}

pub fn run_scenario2(sc: &Scenario2) -> Result<Stats2, Violation> {
    if sc.backward {
        return crate::tier3::run_backward(sc);
    }
    let program = build_program(sc);
    let graph = get_program_cfg(&program);
    let n = graph.node_count();
    let budget = 400 * (sc.bits as u64 + 2) * (n as u64 + graph.edge_count() as u64 + 1) * (sc.slices.len() as u64 + 2);
    let mut stats = Stats2 { nodes: n, ..Default::default() };
    let mk_ctx = || MockContext {
        graph: &graph,
        table_seed: sc.table_seed,
        bits: sc.bits,
        return_needs_both: sc.return_needs_both,
        calls: Cell::new(0),
        budget,
    };
    // entry nodes
    let entry_of = |f: usize| -> Option<NodeIndex> {
        graph.node_indices().find(|i| match &graph[*i] {
            Node::BlkStart(b, s) => s.tid == Tid::new(format!("sub_{f}")) && b.tid == Tid::new(format!("blk_{f}_0")),
            _ => false,
        })
    };
    // clause 5: the worklist constructors return permutations of all nodes
    let bottom_up = create_bottom_up_worklist(&graph);
    let top_down = create_top_down_worklist(&graph);
    for (name, list) in [("bottom_up", &bottom_up), ("top_down", &top_down)] {
        let set: HashSet<NodeIndex> = list.iter().copied().collect();
        if list.len() != n || set.len() != n {
            return Err(viol("worklist_not_a_permutation", format!("create_{name}_worklist returned {} entries ({} distinct) for a graph of {n} nodes", list.len(), set.len())));
        }
    }

    // reference least solution
    let ref_ctx = mk_ctx();
    let is_comb = |i: NodeIndex| matches!(graph[i], Node::CallReturn { .. });
    let mut refv: Vec<Option<RefVal>> = graph
        .node_indices()
        .map(|i| sc.default.map(|d| if is_comb(i) { RefVal::V(d) } else { RefVal::V(d) }))
        .collect();
    // A default value at a CallReturn node is a plain `Value` in the real solver as well; merging a
    // combinator into it panics ("Malformed CFG"), so defaults are only generated for graphs
    // without CallReturn nodes (see generator).
    for (f, v) in &sc.start {
        if let Some(e) = entry_of(*f) {
            refv[e.index()] = Some(RefVal::V(*v));
        }
    }
    let mut rounds = 0;
    loop {
        let mut changed = false;
        for e in graph.edge_references() {
            if let Some(sv) = refv[e.source().index()] {
                if let Some(x) = ref_edge(&ref_ctx, &graph, e.id(), sv) {
                    let t = &mut refv[e.target().index()];
                    let new = t.map_or(x, |o| join(o, x));
                    if *t != Some(new) {
                        *t = Some(new);
                        changed = true;
                    }
                }
            }
        }
        if !changed {
            break;
        }
        rounds += 1;
        if rounds > 10_000 {
            eprintln!("HARNESS ERROR: reference solver does not converge");
            std::process::exit(2);
        }
    }
    stats.ref_rounds = rounds;
    stats.call_return_nodes_with_both = refv.iter().filter(|v| matches!(v, Some(RefVal::Comb(Some(_), Some(_))))).count() as u32;

    // the real solver under the scheduled order
    let ctx = mk_ctx();
    let mut comp: Computation<GeneralizedContext<MockContext>> = match &sc.order {
        Order2::Default => create_computation(ctx, sc.default),
        Order2::BottomUp => Computation::from_node_priority_list(GeneralizedContext::new(ctx), sc.default.map(NodeValue::Value), bottom_up.clone()),
        Order2::TopDown => Computation::from_node_priority_list(GeneralizedContext::new(ctx), sc.default.map(NodeValue::Value), top_down.clone()),
        Order2::Reverse => Computation::from_node_priority_list(GeneralizedContext::new(ctx), sc.default.map(NodeValue::Value), graph.node_indices().rev().collect()),
        Order2::Random(seed) => {
            let mut p: Vec<NodeIndex> = graph.node_indices().collect();
            Rng::new(*seed).shuffle(&mut p);
            Computation::from_node_priority_list(GeneralizedContext::new(ctx), sc.default.map(NodeValue::Value), p)
        }
    };
    for (f, v) in &sc.start {
        if let Some(e) = entry_of(*f) {
            comp.set_node_value(e, NodeValue::Value(*v));
        }
    }
    let result = catch_unwind(AssertUnwindSafe(|| {
        for b in &sc.slices {
            comp.compute_with_max_steps(*b);
            if !comp.has_stabilized() {
                stats.bound_hit = true;
            }
        }
        comp.compute();
    }));
    stats.callbacks = comp.get_context().get_context().calls.get();
    if let Err(payload) = result {
        if payload.downcast_ref::<BudgetExceeded>().is_some() {
            return Err(viol("non_termination", format!("more than {budget} transfer evaluations")));
        }
        let msg = payload
            .downcast_ref::<String>()
            .cloned()
            .or_else(|| payload.downcast_ref::<&str>().map(|s| s.to_string()))
            .unwrap_or_else(|| "panic".into());
        return Err(viol("panic", msg));
    }
    if !comp.has_stabilized() {
        return Err(viol("not_stabilized_after_compute", "compute() returned with a non-empty worklist".into()));
    }
    for i in graph.node_indices() {
        let got = comp.get_node_value(i).map(to_ref);
        if got != refv[i.index()] {
            return Err(viol(
                "differs_from_least_solution",
                format!("node {} ({}): solver {:?}, least solution {:?}, order {:?}", i.index(), graph[i], got, refv[i.index()], sc.order),
            ));
        }
    }
    Ok(stats)
}

pub fn gen_scenario2(seed: u64) -> Scenario2 {
    let mut r = Rng::new(seed);
    let nsubs = r.range(1, 4) as usize;
    let mut subs = Vec::new();
    let sizes: Vec<usize> = (0..nsubs).map(|_| r.range(1, 5) as usize).collect();
    let with_default = r.chance(12);
    for si in 0..nsubs {
        let nb = sizes[si];
        let mut blocks = Vec::new();
        for bi in 0..nb {
            let next = if bi + 1 < nb { Some(bi + 1) } else { None };
            let any = |r: &mut Rng| r.below(nb as u64) as usize;
            let jmp = if bi + 1 == nb && r.chance(70) {
                JmpSpec::Return
            } else {
                match r.below(12) {
                    0 => JmpSpec::Return,
                    1 | 2 => JmpSpec::Branch(any(&mut r)),
                    3 | 4 => JmpSpec::Cond(any(&mut r), next.unwrap_or_else(|| any(&mut r))),
                    5 | 6 | 7 if !with_default => JmpSpec::Call {
                        f: r.below(nsubs as u64) as usize,
                        ret: if r.chance(85) { Some(next.unwrap_or_else(|| any(&mut r))) } else { None },
                    },
                    8 => JmpSpec::Extern { ret: if r.chance(85) { Some(next.unwrap_or_else(|| any(&mut r))) } else { None } },
                    9 => JmpSpec::CallInd { ret: Some(next.unwrap_or_else(|| any(&mut r))) },
                    10 => JmpSpec::BranchInd((0..r.below(3)).map(|_| any(&mut r)).collect()),
                    _ => {
                        if r.chance(20) { JmpSpec::None } else { JmpSpec::Branch(next.unwrap_or_else(|| any(&mut r))) }
                    }
                }
            };
            blocks.push(BlkSpec { defs: r.below(4) as u8, jmp });
        }
        subs.push(blocks);
    }
    let bits = r.range(1, 8) as u8;
    let mask = ((1u16 << bits) - 1) as u8;
    let default = if with_default { Some(r.next() as u8 & r.next() as u8 & mask) } else { None };
    let mut start = vec![(0usize, r.next() as u8 & mask)];
    for f in 1..nsubs {
        if r.chance(30) {
            start.push((f, r.next() as u8 & mask));
        }
    }
    let order = match r.below(8) {
        0 => Order2::Default,
        1 | 2 => Order2::BottomUp,
        3 | 4 => Order2::TopDown,
        5 => Order2::Reverse,
        _ => Order2::Random(r.next()),
    };
    let slices = (0..r.below(3)).map(|_| r.range(1, 3)).collect();
    Scenario2 {
        subs,
        bits,
        table_seed: r.next(),
        return_needs_both: r.chance(50),
        default,
        start,
        order,
        slices,
        backward: false,
    }
}

fn fails_same2(sc: &Scenario2, class: &str) -> bool {
    matches!(run_scenario2(sc), Err(v) if v.class == class)
}

pub fn minimise2(sc: &Scenario2, class: &str) -> Scenario2 {
    let mut cur = sc.clone();
    let mut progress = true;
    while progress {
        progress = false;
        // slices
        while !cur.slices.is_empty() {
            let mut c = cur.clone();
            c.slices.pop();
            if fails_same2(&c, class) { cur = c; progress = true; } else { break; }
        }
        // simplify order
        for o in [Order2::Default, Order2::BottomUp, Order2::TopDown] {
            if cur.order != o && matches!(cur.order, Order2::Random(_) | Order2::Reverse) {
                let mut c = cur.clone();
                c.order = o;
                if fails_same2(&c, class) { cur = c; progress = true; }
            }
        }
        // drop last function if nothing calls it
        if cur.subs.len() > 1 {
            let last = cur.subs.len() - 1;
            let called = cur.subs.iter().flatten().any(|b| matches!(b.jmp, JmpSpec::Call { f, .. } if f == last));
            if !called {
                let mut c = cur.clone();
                c.subs.pop();
                c.start.retain(|(f, _)| *f != last);
                if !c.start.is_empty() && fails_same2(&c, class) { cur = c; progress = true; }
            }
        }
        // simplify blocks: fewer defs, simpler jumps
        for si in 0..cur.subs.len() {
            for bi in 0..cur.subs[si].len() {
                if cur.subs[si][bi].defs > 0 {
                    let mut c = cur.clone();
                    c.subs[si][bi].defs -= 1;
                    if fails_same2(&c, class) { cur = c; progress = true; }
                }
                for simpler in [JmpSpec::None, JmpSpec::Return] {
                    if cur.subs[si][bi].jmp != simpler && cur.subs[si][bi].jmp != JmpSpec::None {
                        let mut c = cur.clone();
                        c.subs[si][bi].jmp = simpler;
                        if fails_same2(&c, class) { cur = c; progress = true; }
                    }
                }
            }
            // drop the last block if no jump targets it
            let nb = cur.subs[si].len();
            if nb > 1 {
                let last = nb - 1;
                let targeted = cur.subs[si].iter().any(|b| match &b.jmp {
                    JmpSpec::Branch(t) => *t == last,
                    JmpSpec::Cond(a, b2) => *a == last || *b2 == last,
                    JmpSpec::Call { ret, .. } | JmpSpec::Extern { ret } | JmpSpec::CallInd { ret } => *ret == Some(last),
                    JmpSpec::BranchInd(ts) => ts.contains(&last),
                    _ => false,
                });
                if !targeted {
                    let mut c = cur.clone();
                    c.subs[si].pop();
                    if fails_same2(&c, class) { cur = c; progress = true; }
                }
            }
        }
        // extra start values
        while cur.start.len() > 1 {
            let mut c = cur.clone();
            c.start.pop();
            if fails_same2(&c, class) { cur = c; progress = true; } else { break; }
        }
    }
    cur
}

pub struct Campaign2 {
    pub evaluations: u64,
    pub distinct: u64,
    pub nontrivial: u64,
    pub callbacks: u64,
    pub violations: Vec<(u64, Scenario2, Violation)>,
    pub reach: BTreeMap<String, u64>,
    pub samples: Vec<serde_json::Value>,
}

pub fn campaign(seed: u64, runs: u64, threads: u64) -> Campaign2 {
    struct Out {
        evals: u64,
        distinct: HashSet<u64>,
        nontrivial: HashSet<u64>,
        callbacks: u64,
        violations: Vec<(u64, Scenario2, Violation)>,
        reach: [u64; 7],
        samples: Vec<(u64, Scenario2, Stats2)>,
    }
    let outs: Vec<Out> = std::thread::scope(|s| {
        let hs: Vec<_> = (0..threads)
            .map(|t| {
                s.spawn(move || {
                    let mut o = Out { evals: 0, distinct: HashSet::new(), nontrivial: HashSet::new(), callbacks: 0, violations: vec![], reach: [0; 7], samples: vec![] };
                    let mut i = t;
                    while i < runs {
                        // one program + table, several orders: the order is the schedule dimension
                        let base = gen_scenario2(derive(seed, "C07.t2", i / 4, 0));
                        let mut sc = base.clone();
                        let mut r = Rng::new(derive(seed, "C07.t2.order", i, 1));
                        sc.order = match i % 4 {
                            0 => Order2::BottomUp,
                            1 => Order2::TopDown,
                            2 => Order2::Default,
                            _ => Order2::Random(r.next()),
                        };
                        sc.slices = (0..r.below(3)).map(|_| r.range(1, 3)).collect();
                        sc.backward = (i / 4) % 2 == 1;
                        let h = crate::hash_of(&sc);
                        o.evals += 1;
                        o.distinct.insert(h);
                        match run_scenario2(&sc) {
                            Ok(st) => {
                                o.callbacks += st.callbacks;
                                if st.ref_rounds >= 3 { o.nontrivial.insert(h); o.reach[0] += 1; }
                                if st.call_return_nodes_with_both > 0 { o.reach[1] += 1; }
                                if st.bound_hit { o.reach[2] += 1; }
                                match sc.order { Order2::BottomUp => o.reach[3] += 1, Order2::TopDown => o.reach[4] += 1, _ => o.reach[5] += 1 }
                                if sc.backward { o.reach[6] += 1; }
                                if o.samples.len() < 2 && st.call_return_nodes_with_both > 0 && st.ref_rounds >= 3 {
                                    o.samples.push((i, sc.clone(), st));
                                }
                            }
                            Err(v) => {
                                if o.violations.len() < 32 { o.violations.push((i, sc, v)); }
                            }
                        }
                        i += threads;
                    }
                    o
                })
            })
            .collect();
        hs.into_iter().map(|h| h.join().unwrap()).collect()
    });
    let mut c = Campaign2 { evaluations: 0, distinct: 0, nontrivial: 0, callbacks: 0, violations: vec![], reach: BTreeMap::new(), samples: vec![] };
    let mut distinct = HashSet::new();
    let mut nontrivial = HashSet::new();
    let mut reach = [0u64; 7];
    let mut samples = Vec::new();
    for o in outs {
        c.evaluations += o.evals;
        distinct.extend(o.distinct);
        nontrivial.extend(o.nontrivial);
        c.callbacks += o.callbacks;
        c.violations.extend(o.violations);
        for k in 0..7 { reach[k] += o.reach[k]; }
        samples.extend(o.samples);
    }
    c.distinct = distinct.len() as u64;
    c.nontrivial = nontrivial.len() as u64;
    c.violations.sort_by_key(|v| v.0);
    samples.sort_by_key(|s| s.0);
    samples.truncate(2);
    c.samples = samples
        .into_iter()
        .map(|(i, sc, st)| serde_json::json!({"tier": 2, "run_index": i, "scenario": sc, "cfg_nodes": st.nodes, "reference_rounds": st.ref_rounds, "call_return_nodes_with_both_inputs": st.call_return_nodes_with_both, "verdict": "holds"}))
        .collect();
    for (k, name) in ["reference_needed_3_or_more_rounds", "call_return_combined_both_inputs", "bound_hit", "bottom_up_order", "top_down_order", "other_orders", "backward_wrapper_runs"].iter().enumerate() {
        c.reach.insert(name.to_string(), reach[k]);
    }
    c
}
