use shuttle::scheduler::{RandomScheduler, RoundRobinScheduler, PctScheduler};
use std::sync::Mutex;
static RESULT: Mutex<Option<String>> = Mutex::new(None);
pub fn module_started(name: &str) { eprintln!("VERIF-RUN {name}"); }
pub fn run_simulated<E: std::fmt::Debug + Send + 'static>(f: impl Fn() -> Result<(), E> + Send + Sync + 'static) -> Result<(), E> {
    let sched: u64 = std::env::var("SIM_SCHED").ok().and_then(|s| s.parse().ok()).unwrap_or(0);
    let mut cfg = shuttle::Config::new();
    cfg.stack_size = 64 << 20;
    cfg.max_steps = shuttle::MaxSteps::None;
    let body = move || { if let Err(e) = f() { *RESULT.lock().unwrap() = Some(format!("{e:?}")); } };
    if sched == 0 { shuttle::Runner::new(RoundRobinScheduler::new(1), cfg).run(body); }
    else if sched % 2 == 1 { shuttle::Runner::new(RandomScheduler::new_from_seed(sched, 1), cfg).run(body); }
    else { shuttle::Runner::new(PctScheduler::new_from_seed(sched, 3, 1), cfg).run(body); }
    if let Some(e) = RESULT.lock().unwrap().take() { eprintln!("Error: {e}"); std::process::exit(1); }
    Ok(())
}
