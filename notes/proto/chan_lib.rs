//! Stand-in for crossbeam_channel over shuttle's mpsc.
use shuttle::sync::mpsc;
pub use mpsc::{RecvError, SendError, TryRecvError};
pub struct Sender<T>(mpsc::Sender<T>);
pub struct Receiver<T>(mpsc::Receiver<T>);
impl<T> Clone for Sender<T> { fn clone(&self) -> Self { Sender(self.0.clone()) } }
pub fn unbounded<T>() -> (Sender<T>, Receiver<T>) { let (s, r) = mpsc::channel(); (Sender(s), Receiver(r)) }
impl<T> Sender<T> { pub fn send(&self, t: T) -> Result<(), SendError<T>> { self.0.send(t) } }
impl<T> Receiver<T> {
    pub fn recv(&self) -> Result<T, RecvError> { self.0.recv() }
    pub fn try_recv(&self) -> Result<T, TryRecvError> { self.0.try_recv() }
    pub fn try_iter(&self) -> TryIter<'_, T> { TryIter(self) }
}
pub struct TryIter<'a, T>(&'a Receiver<T>);
impl<'a, T> Iterator for TryIter<'a, T> { type Item = T; fn next(&mut self) -> Option<T> { self.0.try_recv().ok() } }
