//! Scheduler-owned stand-in for the subset of `crossbeam-channel` that cwe_checker uses
//! (and a little more, so that realistic edits of the repo still compile against it).
//!
//! Contract modelled: MPMC FIFO queue, `send` on an unbounded channel never blocks and fails
//! only when all receivers are gone, `recv` blocks until a message is available or all senders
//! are gone (buffered messages are still delivered after disconnection), `try_recv` never blocks.
//! Every operation is a scheduling point of the simulator and is appended to the run's event log.
//!
//! `recv_timeout` / `recv_deadline`: there is no clock in the simulation; a timeout "may fire at any
//! moment at which the queue is empty", decided by the scheduler's random stream.

use shuttle::sync::{Condvar, Mutex};
use std::collections::VecDeque;
use std::fmt;
use std::sync::Arc;
use std::time::{Duration, Instant};

pub mod events {
    //! Per-execution event log `(seq, task, op, channel)`; `seq` is the index in the list.
    use std::cell::{Cell, RefCell};

    #[derive(Clone, Copy, Debug, PartialEq, Eq, Hash)]
    pub enum Op {
        NewChannel,
        Send,
        SendFailed,
        RecvBlocked,
        Recv,
        RecvDisconnected,
        TryRecvEmpty,
        Timeout,
        DropSender,
        DropReceiver,
        Spawn,
        Join,
        Custom(u32),
    }

    #[derive(Clone, Copy, Debug, PartialEq, Eq, Hash)]
    pub struct Event {
        pub task: u32,
        pub op: Op,
        pub chan: u32,
    }

    thread_local! {
        static LOG: RefCell<Vec<Event>> = const { RefCell::new(Vec::new()) };
        static NEXT_CHAN: Cell<u32> = const { Cell::new(0) };
        static ENABLED: Cell<bool> = const { Cell::new(true) };
    }

    pub fn reset() {
        LOG.with(|l| l.borrow_mut().clear());
        NEXT_CHAN.with(|c| c.set(0));
    }
    pub fn set_enabled(on: bool) {
        ENABLED.with(|e| e.set(on));
    }
    pub fn take() -> Vec<Event> {
        LOG.with(|l| std::mem::take(&mut *l.borrow_mut()))
    }
    pub fn len() -> usize {
        LOG.with(|l| l.borrow().len())
    }
    pub(crate) fn new_chan_id() -> u32 {
        NEXT_CHAN.with(|c| {
            let v = c.get();
            c.set(v + 1);
            v
        })
    }
    pub fn current_task() -> u32 {
        shuttle::current::get_current_task()
            .map(|t| usize::from(t) as u32)
            .unwrap_or(u32::MAX)
    }
    pub fn record(op: Op, chan: u32) {
        if ENABLED.with(|e| e.get()) {
            let task = current_task();
            LOG.with(|l| l.borrow_mut().push(Event { task, op, chan }));
        }
    }
    /// FNV-1a hash of the event sequence: the measure of "distinct interleavings".
    pub fn hash(events: &[Event]) -> u64 {
        let mut h: u64 = 0xcbf2_9ce4_8422_2325;
        let mut feed = |x: u64| {
            for b in x.to_le_bytes() {
                h ^= b as u64;
                h = h.wrapping_mul(0x0000_0100_0000_01b3);
            }
        };
        for e in events {
            feed(e.task as u64);
            feed(match e.op {
                Op::NewChannel => 1,
                Op::Send => 2,
                Op::SendFailed => 3,
                Op::RecvBlocked => 4,
                Op::Recv => 5,
                Op::RecvDisconnected => 6,
                Op::TryRecvEmpty => 7,
                Op::Timeout => 8,
                Op::DropSender => 9,
                Op::DropReceiver => 10,
                Op::Spawn => 11,
                Op::Join => 12,
                Op::Custom(c) => 100 + c as u64,
            });
            feed(e.chan as u64);
        }
        h
    }
}

use events::Op;

struct State<T> {
    queue: VecDeque<T>,
    senders: usize,
    receivers: usize,
    cap: Option<usize>,
}

struct Shared<T> {
    id: u32,
    state: Mutex<State<T>>,
    not_empty: Condvar,
    not_full: Condvar,
}

pub struct Sender<T> {
    shared: Arc<Shared<T>>,
}

pub struct Receiver<T> {
    shared: Arc<Shared<T>>,
}

fn new_channel<T>(cap: Option<usize>) -> (Sender<T>, Receiver<T>) {
    let id = events::new_chan_id();
    events::record(Op::NewChannel, id);
    let shared = Arc::new(Shared {
        id,
        state: Mutex::new(State {
            queue: VecDeque::new(),
            senders: 1,
            receivers: 1,
            cap,
        }),
        not_empty: Condvar::new(),
        not_full: Condvar::new(),
    });
    (
        Sender {
            shared: shared.clone(),
        },
        Receiver { shared },
    )
}

/// Creates a channel of unbounded capacity.
pub fn unbounded<T>() -> (Sender<T>, Receiver<T>) {
    new_channel(None)
}

/// Creates a channel of bounded capacity (`cap == 0` is modelled as capacity 1 hand-off).
pub fn bounded<T>(cap: usize) -> (Sender<T>, Receiver<T>) {
    new_channel(Some(cap.max(1)))
}

impl<T> Sender<T> {
    pub fn send(&self, msg: T) -> Result<(), SendError<T>> {
        let mut st = self.shared.state.lock().unwrap();
        loop {
            if st.receivers == 0 {
                drop(st);
                events::record(Op::SendFailed, self.shared.id);
                return Err(SendError(msg));
            }
            match st.cap {
                Some(cap) if st.queue.len() >= cap => {
                    st = self.shared.not_full.wait(st).unwrap();
                }
                _ => break,
            }
        }
        st.queue.push_back(msg);
        events::record(Op::Send, self.shared.id);
        drop(st);
        self.shared.not_empty.notify_one();
        Ok(())
    }

    pub fn try_send(&self, msg: T) -> Result<(), TrySendError<T>> {
        let mut st = self.shared.state.lock().unwrap();
        if st.receivers == 0 {
            drop(st);
            events::record(Op::SendFailed, self.shared.id);
            return Err(TrySendError::Disconnected(msg));
        }
        if let Some(cap) = st.cap {
            if st.queue.len() >= cap {
                return Err(TrySendError::Full(msg));
            }
        }
        st.queue.push_back(msg);
        events::record(Op::Send, self.shared.id);
        drop(st);
        self.shared.not_empty.notify_one();
        Ok(())
    }

    pub fn send_timeout(&self, msg: T, _timeout: Duration) -> Result<(), SendTimeoutError<T>> {
        self.send(msg).map_err(|e| SendTimeoutError::Disconnected(e.0))
    }

    pub fn len(&self) -> usize {
        self.shared.state.lock().unwrap().queue.len()
    }
    pub fn is_empty(&self) -> bool {
        self.len() == 0
    }
    pub fn is_full(&self) -> bool {
        let st = self.shared.state.lock().unwrap();
        st.cap.map_or(false, |c| st.queue.len() >= c)
    }
    pub fn capacity(&self) -> Option<usize> {
        self.shared.state.lock().unwrap().cap
    }
    pub fn same_channel(&self, other: &Sender<T>) -> bool {
        Arc::ptr_eq(&self.shared, &other.shared)
    }
}

impl<T> Clone for Sender<T> {
    fn clone(&self) -> Self {
        self.shared.state.lock().unwrap().senders += 1;
        Sender {
            shared: self.shared.clone(),
        }
    }
}

impl<T> Drop for Sender<T> {
    fn drop(&mut self) {
        if std::thread::panicking() || shuttle::current::get_current_task().is_none() {
            return;
        }
        let mut st = self.shared.state.lock().unwrap();
        st.senders -= 1;
        let last = st.senders == 0;
        events::record(Op::DropSender, self.shared.id);
        drop(st);
        if last {
            self.shared.not_empty.notify_all();
        }
    }
}

impl<T> Receiver<T> {
    pub fn recv(&self) -> Result<T, RecvError> {
        let mut st = self.shared.state.lock().unwrap();
        let mut blocked = false;
        loop {
            if let Some(msg) = st.queue.pop_front() {
                events::record(Op::Recv, self.shared.id);
                drop(st);
                self.shared.not_full.notify_one();
                return Ok(msg);
            }
            if st.senders == 0 {
                drop(st);
                events::record(Op::RecvDisconnected, self.shared.id);
                return Err(RecvError);
            }
            if !blocked {
                events::record(Op::RecvBlocked, self.shared.id);
                blocked = true;
            }
            st = self.shared.not_empty.wait(st).unwrap();
        }
    }

    pub fn try_recv(&self) -> Result<T, TryRecvError> {
        let mut st = self.shared.state.lock().unwrap();
        if let Some(msg) = st.queue.pop_front() {
            events::record(Op::Recv, self.shared.id);
            drop(st);
            self.shared.not_full.notify_one();
            return Ok(msg);
        }
        if st.senders == 0 {
            drop(st);
            events::record(Op::RecvDisconnected, self.shared.id);
            Err(TryRecvError::Disconnected)
        } else {
            drop(st);
            events::record(Op::TryRecvEmpty, self.shared.id);
            Err(TryRecvError::Empty)
        }
    }

    /// No simulated clock exists: while the queue is empty and senders are alive the timeout may
    /// fire at any scheduling point (decided by the scheduler's random stream, hence replayable).
    pub fn recv_timeout(&self, _timeout: Duration) -> Result<T, RecvTimeoutError> {
        let mut patience = 1 + ({ use shuttle::rand::RngCore; shuttle::rand::thread_rng().next_u64() } % 4);
        loop {
            match self.try_recv() {
                Ok(msg) => return Ok(msg),
                Err(TryRecvError::Disconnected) => return Err(RecvTimeoutError::Disconnected),
                Err(TryRecvError::Empty) => {
                    if patience == 0 {
                        events::record(Op::Timeout, self.shared.id);
                        return Err(RecvTimeoutError::Timeout);
                    }
                    patience -= 1;
                    shuttle::thread::yield_now();
                }
            }
        }
    }

    pub fn recv_deadline(&self, _deadline: Instant) -> Result<T, RecvTimeoutError> {
        self.recv_timeout(Duration::from_secs(0))
    }

    pub fn iter(&self) -> Iter<'_, T> {
        Iter { receiver: self }
    }
    pub fn try_iter(&self) -> TryIter<'_, T> {
        TryIter { receiver: self }
    }
    pub fn len(&self) -> usize {
        self.shared.state.lock().unwrap().queue.len()
    }
    pub fn is_empty(&self) -> bool {
        self.len() == 0
    }
    pub fn is_full(&self) -> bool {
        let st = self.shared.state.lock().unwrap();
        st.cap.map_or(false, |c| st.queue.len() >= c)
    }
    pub fn capacity(&self) -> Option<usize> {
        self.shared.state.lock().unwrap().cap
    }
    pub fn same_channel(&self, other: &Receiver<T>) -> bool {
        Arc::ptr_eq(&self.shared, &other.shared)
    }
}

impl<T> Clone for Receiver<T> {
    fn clone(&self) -> Self {
        self.shared.state.lock().unwrap().receivers += 1;
        Receiver {
            shared: self.shared.clone(),
        }
    }
}

impl<T> Drop for Receiver<T> {
    fn drop(&mut self) {
        if std::thread::panicking() || shuttle::current::get_current_task().is_none() {
            return;
        }
        let mut st = self.shared.state.lock().unwrap();
        st.receivers -= 1;
        let last = st.receivers == 0;
        events::record(Op::DropReceiver, self.shared.id);
        if last {
            // like crossbeam: messages still buffered are dropped with the last receiver
            st.queue.clear();
        }
        drop(st);
        if last {
            self.shared.not_full.notify_all();
        }
    }
}

pub struct Iter<'a, T> {
    receiver: &'a Receiver<T>,
}
impl<T> Iterator for Iter<'_, T> {
    type Item = T;
    fn next(&mut self) -> Option<T> {
        self.receiver.recv().ok()
    }
}

pub struct TryIter<'a, T> {
    receiver: &'a Receiver<T>,
}
impl<T> Iterator for TryIter<'_, T> {
    type Item = T;
    fn next(&mut self) -> Option<T> {
        self.receiver.try_recv().ok()
    }
}

pub struct IntoIter<T> {
    receiver: Receiver<T>,
}
impl<T> Iterator for IntoIter<T> {
    type Item = T;
    fn next(&mut self) -> Option<T> {
        self.receiver.recv().ok()
    }
}
impl<T> IntoIterator for Receiver<T> {
    type Item = T;
    type IntoIter = IntoIter<T>;
    fn into_iter(self) -> IntoIter<T> {
        IntoIter { receiver: self }
    }
}
impl<'a, T> IntoIterator for &'a Receiver<T> {
    type Item = T;
    type IntoIter = Iter<'a, T>;
    fn into_iter(self) -> Iter<'a, T> {
        self.iter()
    }
}

impl<T> fmt::Debug for Sender<T> {
    fn fmt(&self, f: &mut fmt::Formatter<'_>) -> fmt::Result {
        f.pad("Sender { .. }")
    }
}
impl<T> fmt::Debug for Receiver<T> {
    fn fmt(&self, f: &mut fmt::Formatter<'_>) -> fmt::Result {
        f.pad("Receiver { .. }")
    }
}

// ---- error types (same shapes as crossbeam-channel) ----

#[derive(PartialEq, Eq, Clone, Copy)]
pub struct SendError<T>(pub T);
impl<T> SendError<T> {
    pub fn into_inner(self) -> T {
        self.0
    }
}
impl<T> fmt::Debug for SendError<T> {
    fn fmt(&self, f: &mut fmt::Formatter<'_>) -> fmt::Result {
        "SendError(..)".fmt(f)
    }
}
impl<T> fmt::Display for SendError<T> {
    fn fmt(&self, f: &mut fmt::Formatter<'_>) -> fmt::Result {
        "sending on a disconnected channel".fmt(f)
    }
}
impl<T: Send> std::error::Error for SendError<T> {}

#[derive(PartialEq, Eq, Clone, Copy)]
pub enum TrySendError<T> {
    Full(T),
    Disconnected(T),
}
impl<T> TrySendError<T> {
    pub fn into_inner(self) -> T {
        match self {
            TrySendError::Full(t) | TrySendError::Disconnected(t) => t,
        }
    }
    pub fn is_full(&self) -> bool {
        matches!(self, TrySendError::Full(_))
    }
    pub fn is_disconnected(&self) -> bool {
        matches!(self, TrySendError::Disconnected(_))
    }
}
impl<T> fmt::Debug for TrySendError<T> {
    fn fmt(&self, f: &mut fmt::Formatter<'_>) -> fmt::Result {
        match self {
            TrySendError::Full(..) => "Full(..)".fmt(f),
            TrySendError::Disconnected(..) => "Disconnected(..)".fmt(f),
        }
    }
}
impl<T> fmt::Display for TrySendError<T> {
    fn fmt(&self, f: &mut fmt::Formatter<'_>) -> fmt::Result {
        match self {
            TrySendError::Full(..) => "sending on a full channel".fmt(f),
            TrySendError::Disconnected(..) => "sending on a disconnected channel".fmt(f),
        }
    }
}
impl<T: Send> std::error::Error for TrySendError<T> {}

#[derive(PartialEq, Eq, Clone, Copy)]
pub enum SendTimeoutError<T> {
    Timeout(T),
    Disconnected(T),
}
impl<T> fmt::Debug for SendTimeoutError<T> {
    fn fmt(&self, f: &mut fmt::Formatter<'_>) -> fmt::Result {
        "SendTimeoutError(..)".fmt(f)
    }
}
impl<T> fmt::Display for SendTimeoutError<T> {
    fn fmt(&self, f: &mut fmt::Formatter<'_>) -> fmt::Result {
        "timed out or disconnected".fmt(f)
    }
}
impl<T: Send> std::error::Error for SendTimeoutError<T> {}

#[derive(PartialEq, Eq, Clone, Copy, Debug)]
pub struct RecvError;
impl fmt::Display for RecvError {
    fn fmt(&self, f: &mut fmt::Formatter<'_>) -> fmt::Result {
        "receiving on an empty and disconnected channel".fmt(f)
    }
}
impl std::error::Error for RecvError {}

#[derive(PartialEq, Eq, Clone, Copy, Debug)]
pub enum TryRecvError {
    Empty,
    Disconnected,
}
impl TryRecvError {
    pub fn is_empty(&self) -> bool {
        matches!(self, TryRecvError::Empty)
    }
    pub fn is_disconnected(&self) -> bool {
        matches!(self, TryRecvError::Disconnected)
    }
}
impl fmt::Display for TryRecvError {
    fn fmt(&self, f: &mut fmt::Formatter<'_>) -> fmt::Result {
        match self {
            TryRecvError::Empty => "receiving on an empty channel".fmt(f),
            TryRecvError::Disconnected => "receiving on an empty and disconnected channel".fmt(f),
        }
    }
}
impl std::error::Error for TryRecvError {}

#[derive(PartialEq, Eq, Clone, Copy, Debug)]
pub enum RecvTimeoutError {
    Timeout,
    Disconnected,
}
impl RecvTimeoutError {
    pub fn is_timeout(&self) -> bool {
        matches!(self, RecvTimeoutError::Timeout)
    }
    pub fn is_disconnected(&self) -> bool {
        matches!(self, RecvTimeoutError::Disconnected)
    }
}
impl fmt::Display for RecvTimeoutError {
    fn fmt(&self, f: &mut fmt::Formatter<'_>) -> fmt::Result {
        match self {
            RecvTimeoutError::Timeout => "timed out waiting on receive operation".fmt(f),
            RecvTimeoutError::Disconnected => "channel is empty and disconnected".fmt(f),
        }
    }
}
impl std::error::Error for RecvTimeoutError {}
