//! Shrinking of a failing (workload, case) pair while the same violation class persists.
//! Structural deletions keep referential integrity (nothing that is still referenced is removed),
//! so a minimised workload stays inside the generator's envelope.

use serde_json::Value;
use std::collections::BTreeSet;

fn subs(p: &Value) -> &Vec<Value> {
    p["program"]["term"]["subs"].as_array().unwrap()
}
fn subs_mut(p: &mut Value) -> &mut Vec<Value> {
    p["program"]["term"]["subs"].as_array_mut().unwrap()
}

/// All TIDs / addresses a jump refers to.
fn jump_refs(j: &Value, out: &mut BTreeSet<String>) {
    let t = &j["term"];
    if let Some(id) = t["goto"]["Direct"]["id"].as_str() {
        out.insert(id.to_string());
    }
    if let Some(id) = t["call"]["target"]["Direct"]["id"].as_str() {
        out.insert(id.to_string());
    }
    if let Some(id) = t["call"]["return"]["Direct"]["id"].as_str() {
        out.insert(id.to_string());
    }
    if let Some(hints) = t["target_hints"].as_array() {
        for h in hints {
            if let Some(a) = h.as_str() {
                out.insert(format!("blk_{a}"));
            }
        }
    }
}

fn all_refs(p: &Value, skip_sub: Option<usize>) -> BTreeSet<String> {
    let mut out = BTreeSet::new();
    for (si, s) in subs(p).iter().enumerate() {
        if Some(si) == skip_sub {
            continue;
        }
        for b in s["term"]["blocks"].as_array().unwrap() {
            for j in b["term"]["jmps"].as_array().unwrap() {
                jump_refs(j, &mut out);
            }
        }
    }
    for e in p["program"]["term"]["entry_points"].as_array().unwrap() {
        if let Some(id) = e["id"].as_str() {
            out.insert(format!("entry:{id}"));
        }
    }
    out
}

pub fn count(p: &Value) -> (usize, usize, usize) {
    let mut nb = 0;
    let mut nd = 0;
    for s in subs(p) {
        for b in s["term"]["blocks"].as_array().unwrap() {
            nb += 1;
            nd += b["term"]["defs"].as_array().unwrap().len();
        }
    }
    (subs(p).len(), nb, nd)
}

/// `fails(candidate)` must return true iff the candidate still shows the same violation class.
/// `budget` bounds the number of evaluations.
pub fn minimise_pcode(pcode: &Value, fails: &mut dyn FnMut(&Value) -> bool, mut budget: usize) -> Value {
    let mut cur = pcode.clone();
    let mut progress = true;
    let mut try_cand = |cand: Value, cur: &mut Value, budget: &mut usize| -> bool {
        if *budget == 0 {
            return false;
        }
        *budget -= 1;
        if fails(&cand) {
            *cur = cand;
            true
        } else {
            false
        }
    };
    while progress && budget > 0 {
        progress = false;
        // 1. whole functions that nothing else refers to
        let mut si = subs(&cur).len();
        while si > 0 {
            si -= 1;
            if subs(&cur).len() <= 1 {
                break;
            }
            let id = subs(&cur)[si]["tid"]["id"].as_str().unwrap().to_string();
            let first_blk = format!("blk_{}", subs(&cur)[si]["tid"]["address"].as_str().unwrap());
            let refs = all_refs(&cur, Some(si));
            if refs.contains(&id) || refs.contains(&first_blk) {
                continue;
            }
            // blocks of this function referenced from other functions?
            let blocks: Vec<String> = subs(&cur)[si]["term"]["blocks"].as_array().unwrap().iter().map(|b| b["tid"]["id"].as_str().unwrap().to_string()).collect();
            if blocks.iter().any(|b| refs.contains(b)) {
                continue;
            }
            let mut cand = cur.clone();
            subs_mut(&mut cand).remove(si);
            // entry points that named the function go with it
            let eps = cand["program"]["term"]["entry_points"].as_array_mut().unwrap();
            eps.retain(|e| e["id"].as_str() != Some(&id));
            if try_cand(cand, &mut cur, &mut budget) {
                progress = true;
            }
        }
        // 2. jumps of a block (a block without jumps is legal), then unreferenced blocks
        for si in 0..subs(&cur).len() {
            let nb = subs(&cur)[si]["term"]["blocks"].as_array().unwrap().len();
            for bi in 0..nb {
                if !subs(&cur)[si]["term"]["blocks"][bi]["term"]["jmps"].as_array().unwrap().is_empty() {
                    let mut cand = cur.clone();
                    subs_mut(&mut cand)[si]["term"]["blocks"][bi]["term"]["jmps"] = Value::Array(vec![]);
                    if try_cand(cand, &mut cur, &mut budget) {
                        progress = true;
                    }
                }
            }
            let mut bi = subs(&cur)[si]["term"]["blocks"].as_array().unwrap().len();
            while bi > 0 {
                bi -= 1;
                let sub_addr = subs(&cur)[si]["tid"]["address"].as_str().unwrap().to_string();
                let blk = &subs(&cur)[si]["term"]["blocks"][bi];
                if blk["tid"]["address"].as_str() == Some(&sub_addr) && blk["tid"]["id"].as_str() == Some(&format!("blk_{sub_addr}")) {
                    continue; // entry block
                }
                let id = blk["tid"]["id"].as_str().unwrap().to_string();
                if all_refs(&cur, None).contains(&id) {
                    continue;
                }
                let mut cand = cur.clone();
                subs_mut(&mut cand)[si]["term"]["blocks"].as_array_mut().unwrap().remove(bi);
                if try_cand(cand, &mut cur, &mut budget) {
                    progress = true;
                }
            }
        }
        // 3. defs: halves first, then single defs
        for si in 0..subs(&cur).len() {
            for bi in 0..subs(&cur)[si]["term"]["blocks"].as_array().unwrap().len() {
                let n = subs(&cur)[si]["term"]["blocks"][bi]["term"]["defs"].as_array().unwrap().len();
                if n >= 4 {
                    for (from, to) in [(0, n / 2), (n / 2, n)] {
                        let mut cand = cur.clone();
                        subs_mut(&mut cand)[si]["term"]["blocks"][bi]["term"]["defs"].as_array_mut().unwrap().drain(from..to);
                        if try_cand(cand, &mut cur, &mut budget) {
                            progress = true;
                            break;
                        }
                    }
                }
                let mut di = subs(&cur)[si]["term"]["blocks"][bi]["term"]["defs"].as_array().unwrap().len();
                while di > 0 {
                    di -= 1;
                    let mut cand = cur.clone();
                    subs_mut(&mut cand)[si]["term"]["blocks"][bi]["term"]["defs"].as_array_mut().unwrap().remove(di);
                    if try_cand(cand, &mut cur, &mut budget) {
                        progress = true;
                    }
                }
            }
        }
        // 4. extern symbols nothing calls
        let refs = all_refs(&cur, None);
        let n = cur["program"]["term"]["extern_symbols"].as_array().unwrap().len();
        let unref: Vec<usize> = (0..n).filter(|i| !refs.contains(cur["program"]["term"]["extern_symbols"][*i]["tid"]["id"].as_str().unwrap())).collect();
        if !unref.is_empty() {
            let mut cand = cur.clone();
            let arr = cand["program"]["term"]["extern_symbols"].as_array_mut().unwrap();
            for i in unref.iter().rev() {
                arr.remove(*i);
            }
            if try_cand(cand, &mut cur, &mut budget) {
                progress = true;
            } else {
                for i in unref.iter().rev() {
                    let mut cand = cur.clone();
                    cand["program"]["term"]["extern_symbols"].as_array_mut().unwrap().remove(*i);
                    if try_cand(cand, &mut cur, &mut budget) {
                        progress = true;
                    }
                }
            }
        }
    }
    cur
}
